//! Reference models (DESIGN.md Appendix B): the versioned map of one owner and the ledger of its
//! writes.

use std::collections::BTreeMap;

#[derive(Clone, Debug, PartialEq, Eq)]
pub struct RefEntry {
    pub value: String,
    pub version: u64,
    /// 0 set, 1 deleted, 2 delete-after-ttl
    pub status: u8,
    /// virtual ms timestamp of the deletion mark (status != 0)
    pub since: u64,
}

#[derive(Clone, Copy, Debug, PartialEq, Eq, Hash, PartialOrd, Ord)]
pub enum Call {
    Set,
    SetTtl,
    Delete,
    DeleteTtl,
}

impl Call {
    pub fn name(self) -> &'static str {
        match self {
            Call::Set => "set",
            Call::SetTtl => "set_with_ttl",
            Call::Delete => "delete",
            Call::DeleteTtl => "delete_after_ttl",
        }
    }
    pub fn from_name(s: &str) -> Option<Call> {
        Some(match s {
            "set" => Call::Set,
            "set_with_ttl" => Call::SetTtl,
            "delete" => Call::Delete,
            "delete_after_ttl" => Call::DeleteTtl,
            _ => return None,
        })
    }
    pub fn all() -> [Call; 4] {
        [Call::Set, Call::SetTtl, Call::Delete, Call::DeleteTtl]
    }
}

/// One write of an owner, as recorded in the ledger.
#[derive(Clone, Debug, PartialEq, Eq)]
pub struct LedgerWrite {
    pub key: String,
    pub value: String,
    pub version: u64,
    pub status: u8,
}

/// The reference versioned map, plus the ledger of every write it ever assigned.
#[derive(Clone, Debug, Default, PartialEq, Eq)]
pub struct RefMap {
    pub entries: BTreeMap<String, RefEntry>,
    pub mv: u64,
    pub gc: u64,
    /// virtual time in ms
    pub now: u64,
    /// every effective write, indexed by version - 1
    pub ledger: Vec<LedgerWrite>,
    /// key -> version of its latest write
    pub latest: BTreeMap<String, u64>,
}

impl RefMap {
    fn record(&mut self, key: &str, value: &str, status: u8) {
        self.mv += 1;
        let since = if status == 0 { 0 } else { self.now };
        self.entries.insert(key.to_string(), RefEntry { value: value.to_string(), version: self.mv, status, since });
        self.ledger.push(LedgerWrite { key: key.to_string(), value: value.to_string(), version: self.mv, status });
        self.latest.insert(key.to_string(), self.mv);
    }

    /// Applies a local API call. Returns true if it was an effective write.
    pub fn call(&mut self, call: Call, key: &str, value: &str) -> bool {
        match call {
            Call::Set => {
                if let Some(e) = self.entries.get(key) {
                    if e.value == value && e.status == 0 {
                        return false;
                    }
                }
                self.record(key, value, 0);
            }
            Call::SetTtl => {
                if let Some(e) = self.entries.get(key) {
                    if e.value == value && e.status == 2 {
                        return false;
                    }
                }
                self.record(key, value, 2);
            }
            Call::Delete => {
                if !self.entries.contains_key(key) {
                    return false;
                }
                self.record(key, "", 1);
            }
            Call::DeleteTtl => {
                let Some(old) = self.entries.get(key).cloned() else { return false };
                self.record(key, &old.value, 2);
            }
        }
        true
    }

    pub fn advance(&mut self, ms: u64) {
        self.now += ms;
    }

    pub fn gc(&mut self, grace_ms: u64) {
        let now = self.now;
        let mut gc = self.gc;
        self.entries.retain(|_, e| {
            if e.status != 0 && now >= e.since + grace_ms {
                gc = gc.max(e.version);
                false
            } else {
                true
            }
        });
        self.gc = gc;
    }

    pub fn visible(&self) -> Vec<(String, String)> {
        self.entries.iter().filter(|(_, e)| e.status != 1).map(|(k, e)| (k.clone(), e.value.clone())).collect()
    }

    pub fn write_at(&self, version: u64) -> Option<&LedgerWrite> {
        if version == 0 {
            return None;
        }
        self.ledger.get(version as usize - 1)
    }
}
