//! Small shared helpers: tallies, panic capture, hashing, deterministic text generators.

use std::cell::RefCell;
use std::collections::BTreeMap;
use std::hash::{Hash, Hasher};
use std::panic::{catch_unwind, AssertUnwindSafe};

#[derive(Clone, Debug, Default)]
pub struct Tally(pub BTreeMap<&'static str, u64>);

impl Tally {
    pub fn add(&mut self, k: &'static str, n: u64) {
        *self.0.entry(k).or_insert(0) += n;
    }
    pub fn inc(&mut self, k: &'static str) {
        self.add(k, 1);
    }
    pub fn max(&mut self, k: &'static str, n: u64) {
        let e = self.0.entry(k).or_insert(0);
        if n > *e {
            *e = n;
        }
    }
    pub fn get(&self, k: &str) -> u64 {
        self.0.get(k).copied().unwrap_or(0)
    }
    /// Merge: keys starting with "max_" are merged by maximum, all others by sum.
    pub fn merge(&mut self, other: &Tally) {
        for (k, v) in &other.0 {
            if k.starts_with("max_") {
                self.max(k, *v);
            } else {
                self.add(k, *v);
            }
        }
    }
    pub fn to_json(&self) -> serde_json::Value {
        serde_json::Value::Object(self.0.iter().map(|(k, v)| (k.to_string(), serde_json::json!(v))).collect())
    }
}

thread_local! {
    static LAST_PANIC: RefCell<Option<String>> = const { RefCell::new(None) };
    static QUIET: RefCell<bool> = const { RefCell::new(false) };
}

/// Installs a panic hook that records the message and location of panics raised inside
/// [`guarded`] sections instead of printing them. Panics elsewhere are printed as usual.
/// First panic raised outside a [`guarded`] section (any thread): message @ file:line.
pub static UNGUARDED_PANIC: std::sync::Mutex<Option<String>> = std::sync::Mutex::new(None);

pub fn install_panic_hook() {
    let default = std::panic::take_hook();
    std::panic::set_hook(Box::new(move |info| {
        let quiet = QUIET.with(|q| *q.borrow());
        if quiet {
            let msg = if let Some(s) = info.payload().downcast_ref::<&str>() {
                s.to_string()
            } else if let Some(s) = info.payload().downcast_ref::<String>() {
                s.clone()
            } else {
                "<non-string panic>".to_string()
            };
            let loc = info.location().map(|l| format!("{}:{}", l.file(), l.line())).unwrap_or_default();
            LAST_PANIC.with(|p| *p.borrow_mut() = Some(format!("{msg} @ {loc}")));
        } else {
            let msg = if let Some(s) = info.payload().downcast_ref::<&str>() {
                s.to_string()
            } else if let Some(s) = info.payload().downcast_ref::<String>() {
                s.clone()
            } else {
                "<non-string panic>".to_string()
            };
            let loc = info.location().map(|l| format!("{}:{}", l.file(), l.line())).unwrap_or_default();
            if let Ok(mut g) = UNGUARDED_PANIC.lock() {
                if g.is_none() {
                    *g = Some(format!("{msg} @ {loc}"));
                }
            }
            default(info);
        }
    }));
}

/// Runs `f`, turning a panic into `Err(message @ file:line)`.
pub fn guarded<T>(f: impl FnOnce() -> T) -> Result<T, String> {
    let prev = QUIET.with(|q| std::mem::replace(&mut *q.borrow_mut(), true));
    let r = catch_unwind(AssertUnwindSafe(f));
    QUIET.with(|q| *q.borrow_mut() = prev);
    match r {
        Ok(v) => Ok(v),
        Err(_) => Err(LAST_PANIC.with(|p| p.borrow_mut().take()).unwrap_or_else(|| "<panic>".to_string())),
    }
}

/// Shortens a panic location to the path inside the repository.
pub fn short_loc(panic_msg: &str) -> String {
    match panic_msg.rfind(" @ ") {
        Some(i) => {
            let loc = &panic_msg[i + 3..];
            let loc = loc.rsplit("/repo/").next().unwrap_or(loc);
            loc.to_string()
        }
        None => String::new(),
    }
}

/// Fast 128-bit hasher (two independently keyed multiply-rotate lanes with a final avalanche);
/// used only for deduplication keys.
pub struct Hasher128 {
    a: u64,
    b: u64,
    len: u64,
}

impl Hasher128 {
    pub fn new() -> Self {
        Hasher128 { a: 0x9e37_79b9_7f4a_7c15, b: 0xc2b2_ae3d_27d4_eb4f, len: 0 }
    }
    #[inline]
    fn mix(&mut self, x: u64) {
        self.a = (self.a ^ x).wrapping_mul(0xff51_afd7_ed55_8ccd).rotate_left(29);
        self.b = (self.b.rotate_left(31) ^ x.wrapping_mul(0x9fb2_1c65_1e98_df25)).wrapping_mul(0xc4ce_b9fe_1a85_ec53);
    }
    pub fn finish128(&self) -> u128 {
        let fin = |mut z: u64| {
            z ^= z >> 33;
            z = z.wrapping_mul(0xff51_afd7_ed55_8ccd);
            z ^= z >> 33;
            z = z.wrapping_mul(0xc4ce_b9fe_1a85_ec53);
            z ^ (z >> 33)
        };
        let a = fin(self.a ^ self.len);
        let b = fin(self.b ^ self.len.rotate_left(17) ^ a);
        ((a as u128) << 64) | b as u128
    }
}

impl Hasher for Hasher128 {
    fn finish(&self) -> u64 {
        self.finish128() as u64
    }
    #[inline]
    fn write(&mut self, bytes: &[u8]) {
        self.len = self.len.wrapping_add(bytes.len() as u64 + 1);
        let mut chunks = bytes.chunks_exact(8);
        for c in &mut chunks {
            self.mix(u64::from_le_bytes(c.try_into().unwrap()));
        }
        let rem = chunks.remainder();
        if !rem.is_empty() {
            let mut buf = [0u8; 8];
            buf[..rem.len()].copy_from_slice(rem);
            self.mix(u64::from_le_bytes(buf) ^ ((rem.len() as u64) << 56));
        }
    }
    #[inline]
    fn write_u64(&mut self, x: u64) {
        self.len = self.len.wrapping_add(9);
        self.mix(x);
    }
    #[inline]
    fn write_u8(&mut self, x: u8) {
        self.len = self.len.wrapping_add(2);
        self.mix(x as u64 | 0x100);
    }
    #[inline]
    fn write_usize(&mut self, x: usize) {
        self.write_u64(x as u64);
    }
}

/// 128-bit hash of a hashable value.
pub fn hash128<T: Hash>(t: &T) -> u128 {
    let mut h = Hasher128::new();
    t.hash(&mut h);
    h.finish128()
}

/// Deterministic pseudo-random generator (splitmix64); used only to *build* payloads, never to
/// choose what is explored.
#[derive(Clone)]
pub struct SplitMix(pub u64);
impl SplitMix {
    pub fn next(&mut self) -> u64 {
        self.0 = self.0.wrapping_add(0x9e37_79b9_7f4a_7c15);
        let mut z = self.0;
        z = (z ^ (z >> 30)).wrapping_mul(0xbf58_476d_1ce4_e5b9);
        z = (z ^ (z >> 27)).wrapping_mul(0x94d0_49bb_1331_11eb);
        z ^ (z >> 31)
    }
}

/// Content classes for payload strings.
#[derive(Clone, Copy, Debug, PartialEq, Eq, PartialOrd, Ord, Hash)]
pub enum Content {
    /// one repeated character: compresses to almost nothing
    Repeat,
    /// uniformly distributed 7-bit characters (0x20..0x7f): about 6.6 bits per byte
    Ascii7,
    /// full 7-bit range 0x00..0x7f: 7 bits per byte, the densest single-byte class
    Full7,
    /// mix of 1-byte and 2-byte characters tuned for maximal byte entropy: zstd barely shrinks it
    Mixed,
}

/// Deterministic UTF-8 string of exactly `len` bytes of the given content class.
pub fn text(len: usize, content: Content, seed: u64) -> String {
    let mut rng = SplitMix(seed ^ 0xabcdef);
    let mut s = String::with_capacity(len + 4);
    match content {
        Content::Repeat => {
            for _ in 0..len {
                s.push('x');
            }
        }
        Content::Ascii7 => {
            while s.len() < len {
                s.push((0x20 + (rng.next() % 95) as u8) as char);
            }
        }
        Content::Full7 => {
            while s.len() < len {
                s.push((rng.next() % 128) as u8 as char);
            }
        }
        Content::Mixed => {
            while s.len() < len {
                let r = rng.next();
                // ~ 55 % one-byte chars, 45 % two-byte chars (U+0080..U+07FF)
                if r % 100 < 55 || s.len() + 2 > len {
                    s.push(((r >> 8) % 128) as u8 as char);
                } else {
                    let cp = 0x80 + ((r >> 8) % (0x800 - 0x80)) as u32;
                    s.push(char::from_u32(cp).unwrap());
                }
            }
        }
    }
    debug_assert_eq!(s.len(), len);
    s
}
