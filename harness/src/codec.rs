//! Independent encoder / decoder of the documented chitchat wire layout (DESIGN.md, Appendix A).
//!
//! Nothing here calls into the `chitchat` crate: it is the reference the real codec is compared
//! with (C08) and the way every engine builds and inspects messages as bytes.

use std::net::{IpAddr, Ipv4Addr, Ipv6Addr, SocketAddr};

pub const MAGIC: u16 = 45_139;
pub const MAX_DATAGRAM: usize = 65_507;

#[derive(Clone, Debug, PartialEq, Eq, PartialOrd, Ord, Hash)]
pub struct Id {
    pub node_id: String,
    pub generation: u64,
    pub addr: SocketAddr,
}

impl Id {
    pub fn v4(name: &str, generation: u64, port: u16) -> Id {
        Id {
            node_id: name.to_string(),
            generation,
            addr: SocketAddr::new(IpAddr::V4(Ipv4Addr::new(127, 0, 0, 1)), port),
        }
    }
}

#[derive(Clone, Debug, PartialEq, Eq, PartialOrd, Ord, Hash)]
pub struct DigestEntry {
    pub id: Id,
    pub heartbeat: u64,
    pub gc: u64,
    pub mv: u64,
}

#[derive(Clone, Debug, PartialEq, Eq, PartialOrd, Ord, Hash)]
pub enum Op {
    Node { id: Id, gc: u64, from: u64 },
    Kv { key: String, value: String, version: u64, status: u8 },
    SetMax(u64),
}

#[derive(Clone, Debug, PartialEq, Eq, PartialOrd, Ord, Hash)]
pub enum Msg {
    Syn { digest: Vec<DigestEntry>, cluster_id: String },
    SynAck { digest: Vec<DigestEntry>, ops: Vec<Op> },
    Ack { ops: Vec<Op> },
    BadCluster,
}

impl Msg {
    pub fn kind(&self) -> &'static str {
        match self {
            Msg::Syn { .. } => "syn",
            Msg::SynAck { .. } => "synack",
            Msg::Ack { .. } => "ack",
            Msg::BadCluster => "badcluster",
        }
    }
    pub fn ops(&self) -> &[Op] {
        match self {
            Msg::SynAck { ops, .. } | Msg::Ack { ops } => ops,
            _ => &[],
        }
    }
    pub fn digest(&self) -> &[DigestEntry] {
        match self {
            Msg::Syn { digest, .. } | Msg::SynAck { digest, .. } => digest,
            _ => &[],
        }
    }
}

/// Per-member grouping of an op stream (what a decoder turns the ops into).
#[derive(Clone, Debug, PartialEq, Eq, PartialOrd, Ord, Hash)]
pub struct MemberDelta {
    pub id: Id,
    pub gc: u64,
    pub from: u64,
    pub max_version: u64,
    pub kvs: Vec<(String, String, u64, u8)>,
}

// ---------------------------------------------------------------- primitive encoders

fn put_u16(out: &mut Vec<u8>, v: u16) {
    out.extend_from_slice(&v.to_le_bytes());
}
fn put_u64(out: &mut Vec<u8>, v: u64) {
    out.extend_from_slice(&v.to_le_bytes());
}
fn put_str(out: &mut Vec<u8>, s: &str) {
    assert!(s.len() <= 65_535, "string too long for the wire format");
    put_u16(out, s.len() as u16);
    out.extend_from_slice(s.as_bytes());
}
fn put_addr(out: &mut Vec<u8>, addr: &SocketAddr) {
    match addr.ip() {
        IpAddr::V4(ip) => {
            out.push(4);
            out.extend_from_slice(&ip.octets());
        }
        IpAddr::V6(ip) => {
            out.push(6);
            out.extend_from_slice(&ip.octets());
        }
    }
    put_u16(out, addr.port());
}
pub fn put_id(out: &mut Vec<u8>, id: &Id) {
    put_str(out, &id.node_id);
    put_u64(out, id.generation);
    put_addr(out, &id.addr);
}
pub fn id_len(id: &Id) -> usize {
    2 + id.node_id.len() + 8 + 1 + if id.addr.is_ipv4() { 4 } else { 16 } + 2
}

pub fn put_digest(out: &mut Vec<u8>, digest: &[DigestEntry]) {
    assert!(digest.len() <= 65_535);
    put_u16(out, digest.len() as u16);
    for entry in digest {
        put_id(out, &entry.id);
        put_u64(out, entry.heartbeat);
        put_u64(out, entry.gc);
        put_u64(out, entry.mv);
    }
}
pub fn digest_len(digest: &[DigestEntry]) -> usize {
    2 + digest.iter().map(|e| id_len(&e.id) + 24).sum::<usize>()
}

pub fn put_op(out: &mut Vec<u8>, op: &Op) {
    match op {
        Op::Node { id, gc, from } => {
            out.push(0);
            put_id(out, id);
            put_u64(out, *gc);
            put_u64(out, *from);
        }
        Op::Kv { key, value, version, status } => {
            out.push(1);
            put_str(out, key);
            put_str(out, value);
            put_u64(out, *version);
            out.push(*status);
        }
        Op::SetMax(mv) => {
            out.push(2);
            put_u64(out, *mv);
        }
    }
}
pub fn op_len(op: &Op) -> usize {
    match op {
        Op::Node { id, .. } => 1 + id_len(id) + 16,
        Op::Kv { key, value, .. } => 1 + 2 + key.len() + 2 + value.len() + 8 + 1,
        Op::SetMax(_) => 9,
    }
}

/// How the independent encoder cuts and stores blocks.
#[derive(Clone, Copy, Debug, PartialEq, Eq)]
pub enum BlockMode {
    /// compress every block, fall back to raw when zstd does not shrink it (what an honest sender
    /// does)
    Auto,
    /// store every block raw
    Raw,
    /// compress every block even if that grows it
    Compressed,
}

#[derive(Clone, Copy, Debug)]
pub struct StreamPlan {
    pub block_size: usize,
    pub mode: BlockMode,
    /// emit an empty block (raw, len 0) before the terminator
    pub trailing_empty_block: bool,
}

impl Default for StreamPlan {
    fn default() -> Self {
        StreamPlan { block_size: 16_384, mode: BlockMode::Auto, trailing_empty_block: false }
    }
}

pub fn put_stream_bytes(out: &mut Vec<u8>, raw: &[u8], plan: StreamPlan) {
    assert!(plan.block_size >= 1 && plan.block_size <= 65_535);
    for chunk in raw.chunks(plan.block_size) {
        let compressed = match plan.mode {
            BlockMode::Raw => None,
            BlockMode::Auto => {
                let c = zstd::bulk::compress(chunk, 0).expect("zstd compress");
                if c.len() <= chunk.len() { Some(c) } else { None }
            }
            BlockMode::Compressed => {
                let c = zstd::bulk::compress(chunk, 0).expect("zstd compress");
                if c.len() <= 65_535 { Some(c) } else { None }
            }
        };
        match compressed {
            Some(c) => {
                out.push(1);
                put_u16(out, c.len() as u16);
                out.extend_from_slice(&c);
            }
            None => {
                out.push(2);
                put_u16(out, chunk.len() as u16);
                out.extend_from_slice(chunk);
            }
        }
    }
    if plan.trailing_empty_block {
        out.push(2);
        put_u16(out, 0);
    }
    out.push(0);
}

pub fn put_stream(out: &mut Vec<u8>, ops: &[Op], plan: StreamPlan) {
    let mut raw = Vec::new();
    for op in ops {
        put_op(&mut raw, op);
    }
    put_stream_bytes(out, &raw, plan);
}

pub fn encode_with(msg: &Msg, plan: StreamPlan) -> Vec<u8> {
    let mut out = Vec::new();
    put_u16(&mut out, MAGIC);
    out.push(0);
    match msg {
        Msg::Syn { digest, cluster_id } => {
            out.push(0);
            put_digest(&mut out, digest);
            put_str(&mut out, cluster_id);
        }
        Msg::SynAck { digest, ops } => {
            out.push(1);
            put_digest(&mut out, digest);
            put_stream(&mut out, ops, plan);
        }
        Msg::Ack { ops } => {
            out.push(2);
            put_stream(&mut out, ops, plan);
        }
        Msg::BadCluster => out.push(3),
    }
    out
}

pub fn encode(msg: &Msg) -> Vec<u8> {
    encode_with(msg, StreamPlan::default())
}

// ---------------------------------------------------------------- decoder

#[derive(Debug, Clone, PartialEq, Eq)]
pub struct DecodeError(pub String);

type R<T> = Result<T, DecodeError>;
fn err<T>(s: &str) -> R<T> {
    Err(DecodeError(s.to_string()))
}

struct Cur<'a> {
    buf: &'a [u8],
    pos: usize,
}

impl<'a> Cur<'a> {
    fn take(&mut self, n: usize) -> R<&'a [u8]> {
        if self.buf.len() - self.pos < n {
            return err("buffer too short");
        }
        let s = &self.buf[self.pos..self.pos + n];
        self.pos += n;
        Ok(s)
    }
    fn u8(&mut self) -> R<u8> {
        Ok(self.take(1)?[0])
    }
    fn u16(&mut self) -> R<u16> {
        let b = self.take(2)?;
        Ok(u16::from_le_bytes([b[0], b[1]]))
    }
    fn u64(&mut self) -> R<u64> {
        let b = self.take(8)?;
        let mut a = [0u8; 8];
        a.copy_from_slice(b);
        Ok(u64::from_le_bytes(a))
    }
    fn string(&mut self) -> R<String> {
        let n = self.u16()? as usize;
        let b = self.take(n)?;
        match std::str::from_utf8(b) {
            Ok(s) => Ok(s.to_string()),
            Err(_) => err("invalid utf-8"),
        }
    }
    fn addr(&mut self) -> R<SocketAddr> {
        let ip = match self.u8()? {
            4 => {
                let b = self.take(4)?;
                IpAddr::V4(Ipv4Addr::new(b[0], b[1], b[2], b[3]))
            }
            6 => {
                let b = self.take(16)?;
                let mut a = [0u8; 16];
                a.copy_from_slice(b);
                IpAddr::V6(Ipv6Addr::from(a))
            }
            _ => return err("bad ip version"),
        };
        let port = self.u16()?;
        Ok(SocketAddr::new(ip, port))
    }
    fn id(&mut self) -> R<Id> {
        let node_id = self.string()?;
        let generation = self.u64()?;
        let addr = self.addr()?;
        Ok(Id { node_id, generation, addr })
    }
    fn digest(&mut self) -> R<Vec<DigestEntry>> {
        let n = self.u16()? as usize;
        let mut v = Vec::with_capacity(n.min(4096));
        for _ in 0..n {
            let id = self.id()?;
            let heartbeat = self.u64()?;
            let gc = self.u64()?;
            let mv = self.u64()?;
            v.push(DigestEntry { id, heartbeat, gc, mv });
        }
        Ok(v)
    }
    fn op(&mut self) -> R<Op> {
        match self.u8()? {
            0 => {
                let id = self.id()?;
                let gc = self.u64()?;
                let from = self.u64()?;
                Ok(Op::Node { id, gc, from })
            }
            1 => {
                let key = self.string()?;
                let value = self.string()?;
                let version = self.u64()?;
                let status = self.u8()?;
                if status > 2 {
                    return err("bad status");
                }
                Ok(Op::Kv { key, value, version, status })
            }
            2 => Ok(Op::SetMax(self.u64()?)),
            _ => err("bad op tag"),
        }
    }
    fn stream(&mut self) -> R<(Vec<Op>, BlockStats)> {
        let mut raw = Vec::new();
        let mut stats = BlockStats::default();
        loop {
            match self.u8()? {
                0 => break,
                1 => {
                    let n = self.u16()? as usize;
                    let b = self.take(n)?;
                    match zstd::bulk::decompress(b, 65_535) {
                        Ok(d) => raw.extend_from_slice(&d),
                        Err(_) => return err("zstd"),
                    }
                    stats.compressed += 1;
                }
                2 => {
                    let n = self.u16()? as usize;
                    let b = self.take(n)?;
                    raw.extend_from_slice(b);
                    stats.raw += 1;
                }
                _ => return err("bad block tag"),
            }
        }
        stats.uncompressed_len = raw.len();
        let mut c = Cur { buf: &raw, pos: 0 };
        let mut ops = Vec::new();
        while c.pos < raw.len() {
            ops.push(c.op()?);
        }
        Ok((ops, stats))
    }
}

#[derive(Clone, Copy, Debug, Default, PartialEq, Eq)]
pub struct BlockStats {
    pub compressed: usize,
    pub raw: usize,
    /// bytes of the operation stream before compression
    pub uncompressed_len: usize,
}

#[derive(Clone, Debug)]
pub struct Decoded {
    pub msg: Msg,
    /// number of bytes of the datagram the message occupies
    pub consumed: usize,
    /// for SYN-ACK / ACK: length in bytes of the block stream (incl. terminator)
    pub stream_len: usize,
    pub blocks: BlockStats,
}

pub fn decode(buf: &[u8]) -> R<Decoded> {
    let mut c = Cur { buf, pos: 0 };
    if c.u16()? != MAGIC {
        return err("bad magic");
    }
    if c.u8()? != 0 {
        return err("bad protocol version");
    }
    let kind = c.u8()?;
    let mut stream_len = 0;
    let mut blocks = BlockStats::default();
    let msg = match kind {
        0 => {
            let digest = c.digest()?;
            let cluster_id = c.string()?;
            Msg::Syn { digest, cluster_id }
        }
        1 => {
            let digest = c.digest()?;
            let start = c.pos;
            let (ops, b) = c.stream()?;
            stream_len = c.pos - start;
            blocks = b;
            Msg::SynAck { digest, ops }
        }
        2 => {
            let start = c.pos;
            let (ops, b) = c.stream()?;
            stream_len = c.pos - start;
            blocks = b;
            Msg::Ack { ops }
        }
        3 => Msg::BadCluster,
        _ => return err("bad message kind"),
    };
    Ok(Decoded { msg, consumed: c.pos, stream_len, blocks })
}

/// Groups ops per member following the documented decoder rules. `strict_set_max` adds the rule
/// introduced by the F-3 repair (a SetMaxVersion may not lower the running max).
pub fn group_ops(ops: &[Op], strict_set_max: bool) -> R<Vec<MemberDelta>> {
    let mut out: Vec<MemberDelta> = Vec::new();
    let mut seen: std::collections::BTreeSet<Id> = Default::default();
    let mut cur: Option<MemberDelta> = None;
    for op in ops {
        match op {
            Op::Node { id, gc, from } => {
                if let Some(m) = cur.take() {
                    out.push(m);
                }
                if !seen.insert(id.clone()) {
                    return err("duplicate member");
                }
                cur = Some(MemberDelta { id: id.clone(), gc: *gc, from: *from, max_version: 0, kvs: vec![] });
            }
            Op::Kv { key, value, version, status } => {
                let Some(m) = cur.as_mut() else { return err("kv without member") };
                if *version <= m.max_version {
                    return err("kv versions must strictly increase");
                }
                m.max_version = *version;
                m.kvs.push((key.clone(), value.clone(), *version, *status));
            }
            Op::SetMax(mv) => {
                let Some(m) = cur.as_mut() else { return err("set-max without member") };
                if strict_set_max && *mv < m.max_version {
                    return err("set-max lowers max version");
                }
                m.max_version = *mv;
            }
        }
    }
    if let Some(m) = cur.take() {
        out.push(m);
    }
    Ok(out)
}

/// The op sequence an honest sender emits for a list of member deltas.
pub fn honest_ops(members: &[MemberDelta]) -> Vec<Op> {
    let mut ops = Vec::new();
    for m in members {
        ops.push(Op::Node { id: m.id.clone(), gc: m.gc, from: m.from });
        for (k, v, ver, st) in &m.kvs {
            ops.push(Op::Kv { key: k.clone(), value: v.clone(), version: *ver, status: *st });
        }
        if m.kvs.is_empty() && m.max_version > 0 {
            ops.push(Op::SetMax(m.max_version));
        }
    }
    ops
}

/// Digest as a map: the last duplicate wins, entries sorted by id.
pub fn digest_as_map(digest: &[DigestEntry]) -> std::collections::BTreeMap<Id, (u64, u64, u64)> {
    let mut m = std::collections::BTreeMap::new();
    for e in digest {
        m.insert(e.id.clone(), (e.heartbeat, e.gc, e.mv));
    }
    m
}
