//! Result aggregation, known-findings handling, evidence files, exit status.

use std::path::{Path, PathBuf};
use std::time::Instant;

use serde_json::{json, Value};

use crate::util::Tally;

#[derive(Clone, Copy, Debug, PartialEq, Eq)]
pub enum Tier {
    Quick,
    Thorough,
}

impl Tier {
    pub fn name(self) -> &'static str {
        match self {
            Tier::Quick => "quick",
            Tier::Thorough => "thorough",
        }
    }
    pub fn pick<T>(self, quick: T, thorough: T) -> T {
        match self {
            Tier::Quick => quick,
            Tier::Thorough => thorough,
        }
    }
}

pub fn verif_dir() -> PathBuf {
    if let Ok(d) = std::env::var("VERIF_DIR") {
        return PathBuf::from(d);
    }
    Path::new(env!("CARGO_MANIFEST_DIR")).parent().unwrap().to_path_buf()
}

#[derive(Clone, Debug)]
pub struct Violation {
    pub property: String,
    /// one-line description of the failing observation
    pub what: String,
    /// machine-checkable cause signature (engine-specific), matched against known-findings.txt
    pub signature: String,
    /// replayable artefact
    pub replay: Value,
}

/// What one engine run covered.
#[derive(Clone, Debug, Default)]
pub struct Part {
    pub name: String,
    pub states: u64,
    pub transitions: u64,
    /// executions of the real code (histories / cases replayed on the implementation)
    pub executions: u64,
    pub distinct_nontrivial: u64,
    pub rule: String,
    pub bounds: Value,
    pub tally: Tally,
    pub samples: Vec<Value>,
    pub exhaustive: bool,
    pub caps_hit: Vec<String>,
    pub notes: Vec<String>,
    pub violations: Vec<Violation>,
}

impl Part {
    pub fn new(name: &str) -> Part {
        Part { name: name.to_string(), exhaustive: true, bounds: json!({}), ..Default::default() }
    }
    pub fn sample(&mut self, v: Value) {
        if self.samples.len() < 6 {
            self.samples.push(v);
        }
    }
    pub fn violation(&mut self, property: &str, what: String, signature: String, replay: Value) {
        if self.violations.len() < 200 {
            self.violations.push(Violation { property: property.to_string(), what, signature, replay });
        }
    }
    /// A vacuity guard: the named counter must be positive, otherwise the run is a machinery
    /// failure (the exploration did not reach what it claims to cover).
    pub fn require(&mut self, counter: &'static str) {
        if self.tally.get(counter) == 0 {
            self.notes.push(format!("VACUOUS: counter `{counter}` is zero"));
        }
    }
}

#[derive(Clone, Debug)]
pub struct Known {
    pub kind: String, // "known" | "fixed"
    pub property: String,
    pub id: String,
    pub signature: String,
    pub text: String,
}

pub fn load_known() -> Vec<Known> {
    let p = verif_dir().join("known-findings.txt");
    let Ok(s) = std::fs::read_to_string(&p) else { return vec![] };
    let mut out = vec![];
    for line in s.lines() {
        let line = line.trim();
        if line.is_empty() || line.starts_with('#') {
            continue;
        }
        let (kind, rest) = match line.split_once(':') {
            Some((k, r)) => (k.trim().to_string(), r.trim()),
            None => continue,
        };
        if kind != "known" && kind != "fixed" {
            continue;
        }
        let mut k = Known { kind, property: String::new(), id: String::new(), signature: String::new(), text: String::new() };
        let mut text = vec![];
        for tok in rest.split_whitespace() {
            if let Some(v) = tok.strip_prefix("property=") {
                k.property = v.to_string();
            } else if let Some(v) = tok.strip_prefix("id=") {
                k.id = v.to_string();
            } else if let Some(v) = tok.strip_prefix("signature=") {
                k.signature = v.to_string();
            } else if tok.starts_with("engine=") || tok.starts_with("replay=") {
            } else {
                text.push(tok);
            }
        }
        k.text = text.join(" ");
        out.push(k);
    }
    out
}

pub struct Check {
    pub property: String,
    pub tier: Tier,
    pub seed: i64,
    pub started: Instant,
    pub parts: Vec<Part>,
    pub assumptions: Vec<String>,
    pub outside_bounds: Vec<String>,
}

impl Check {
    pub fn new(property: &str, tier: Tier) -> Check {
        let seed = std::env::var("VERIF_SEED").ok().and_then(|s| s.parse().ok()).unwrap_or(0);
        Check {
            property: property.to_string(),
            tier,
            seed,
            started: Instant::now(),
            parts: vec![],
            assumptions: vec![],
            outside_bounds: vec![],
        }
    }

    /// Writes the evidence file, prints verdict lines, returns the process exit code.
    pub fn finish(self) -> i32 {
        let known = load_known();
        let dir = verif_dir();
        let mut real_violations: Vec<&Violation> = vec![];
        let mut known_hits: std::collections::BTreeMap<String, (String, u64)> = Default::default();
        for part in &self.parts {
            for v in &part.violations {
                if v.property != self.property {
                    continue;
                }
                let hit = known
                    .iter()
                    .find(|k| k.kind == "known" && k.property == v.property && !k.signature.is_empty() && k.signature == v.signature);
                match hit {
                    Some(k) => {
                        let e = known_hits.entry(k.id.clone()).or_insert((k.text.clone(), 0));
                        e.1 += 1;
                    }
                    None => real_violations.push(v),
                }
            }
        }
        let mut machinery_failures: Vec<String> = vec![];
        for part in &self.parts {
            for n in &part.notes {
                // A vacuity guard that fails on a part that completed is a defect of the machinery. On a
                // part that was cut short by its wall cap (an overloaded machine) it only means that the
                // part explored too little: reported in the evidence (`exhaustive: false`), not a failure.
                let capped = !part.caps_hit.is_empty();
                if (n.starts_with("VACUOUS") && !capped) || n.starts_with("MACHINERY") {
                    machinery_failures.push(format!("{}: {}", part.name, n));
                } else if n.starts_with("VACUOUS") {
                    eprintln!("note: {}: {} (the part hit its wall cap: {:?})", part.name, n, part.caps_hit);
                }
            }
        }

        // replay files for real violations (at most 5, shortest first by serialized size)
        let mut sorted = real_violations.clone();
        sorted.sort_by_key(|v| v.replay.to_string().len());
        let mut lines = vec![];
        if !sorted.is_empty() {
            let rdir = dir.join("replays");
            let _ = std::fs::create_dir_all(&rdir);
            for v in sorted.iter().take(5) {
                let h = crate::util::hash128(&v.replay.to_string()) as u32;
                let path = rdir.join(format!("{}-{:08x}.json", v.property, h));
                let mut r = v.replay.clone();
                if let Some(o) = r.as_object_mut() {
                    o.insert("property".into(), json!(v.property));
                    o.insert("observed".into(), json!(v.what));
                    o.insert("signature".into(), json!(v.signature));
                }
                let _ = std::fs::write(&path, serde_json::to_string_pretty(&r).unwrap());
                lines.push(format!("VIOLATION property={} replay={}", v.property, path.display()));
                eprintln!("  {}", v.what);
            }
        }
        for (id, (text, n)) in &known_hits {
            println!("KNOWN-FINDING: property={} {} {} (met {} times in this run)", self.property, id, text, n);
        }

        // evidence
        let states: u64 = self.parts.iter().map(|p| p.states).sum();
        let transitions: u64 = self.parts.iter().map(|p| p.transitions).sum();
        let executions: u64 = self.parts.iter().map(|p| p.executions).sum();
        let distinct: u64 = self.parts.iter().map(|p| p.distinct_nontrivial).sum();
        let exhaustive = self.parts.iter().filter(|p| !p.name.contains("non-deciding")).all(|p| p.exhaustive);
        let mut samples: Vec<Value> = vec![];
        for p in &self.parts {
            for s in p.samples.iter().take(3) {
                samples.push(json!({"part": p.name, "case": s}));
            }
        }
        if samples.is_empty() {
            samples.push(json!("no sample recorded"));
        }
        let parts_json: Vec<Value> = self
            .parts
            .iter()
            .map(|p| {
                json!({
                    "name": p.name, "states": p.states, "transitions": p.transitions, "executions_on_real_code": p.executions,
                    "distinct_nontrivial": p.distinct_nontrivial, "rule": p.rule, "bounds": p.bounds, "counters": p.tally.to_json(),
                    "exhaustive_within_bounds": p.exhaustive, "caps_hit": p.caps_hit, "notes": p.notes,
                })
            })
            .collect();
        let rule = self.parts.iter().map(|p| format!("[{}] {}", p.name, p.rule)).collect::<Vec<_>>().join(" ");
        let wall = self.started.elapsed().as_secs_f64();
        let evidence = json!({
            "property_id": self.property,
            "tier": self.tier.name(),
            "seed": self.seed,
            "level": "model_checking",
            "coverage": {
                "states": states.max(1),
                "transitions": transitions.max(1),
                "traces_validated_against_impl": executions,
                "evaluations": executions.max(1),
                "distinct_nontrivial": distinct,
                "rule": rule,
                "samples": samples,
                "exhaustive": exhaustive,
                "explanation": "explicit-state / bounded-exhaustive exploration executed directly on the real chitchat code (no separate model: every explored history is an execution of the implementation)",
                "parts": parts_json,
                "outside_bounds": self.outside_bounds,
                "known_findings_met": known_hits.iter().map(|(id,(t,n))| json!({"id":id,"text":t,"times":n})).collect::<Vec<_>>(),
            },
            "assumptions": self.assumptions,
            "wall_s": wall,
            "violations": real_violations.len(),
        });
        let edir = dir.join("evidence");
        let _ = std::fs::create_dir_all(&edir);
        let epath = edir.join(format!("{}.json", self.property));
        std::fs::write(&epath, serde_json::to_string_pretty(&evidence).unwrap()).expect("write evidence");

        for p in &self.parts {
            println!(
                "[{}] part={} states={} transitions={} executions={} distinct_nontrivial={} exhaustive={} caps={:?}",
                self.property, p.name, p.states, p.transitions, p.executions, p.distinct_nontrivial, p.exhaustive, p.caps_hit
            );
        }
        println!("[{}] tier={} wall={:.1}s violations={} known_findings={}", self.property, self.tier.name(), wall, real_violations.len(), known_hits.len());
        if !lines.is_empty() {
            for l in &lines {
                println!("{l}");
            }
            return 1;
        }
        if !machinery_failures.is_empty() {
            for m in &machinery_failures {
                eprintln!("MACHINERY FAILURE: {m}");
            }
            return 3;
        }
        0
    }
}
