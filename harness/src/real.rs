//! Bridge between the independent codec's AST and the real chitchat types.

use chitchat::verif::{DeltaView, DigestEntryView, MessageView};
use chitchat::{ChitchatId, ChitchatMessage, Deserializable, Serializable};

use crate::codec::{self, DigestEntry, Id, MemberDelta, Msg};

pub fn to_real_id(id: &Id) -> ChitchatId {
    ChitchatId::new(id.node_id.clone(), id.generation, id.addr)
}
pub fn from_real_id(id: &ChitchatId) -> Id {
    Id { node_id: id.node_id.clone(), generation: id.generation_id, addr: id.gossip_advertise_addr }
}

/// Real decoder. Returns the message and the number of bytes consumed.
pub fn real_decode(bytes: &[u8]) -> Result<(ChitchatMessage, usize), String> {
    let mut buf = bytes;
    match ChitchatMessage::deserialize(&mut buf) {
        Ok(m) => Ok((m, bytes.len() - buf.len())),
        Err(e) => Err(format!("{e:#}")),
    }
}

pub fn real_encode(msg: &ChitchatMessage) -> Vec<u8> {
    let mut v = Vec::new();
    msg.serialize(&mut v);
    v
}

/// Builds a real message from the AST through the independent encoder and the real decoder.
pub fn build_real(msg: &Msg) -> Result<ChitchatMessage, String> {
    real_decode(&codec::encode(msg)).map(|(m, _)| m)
}

/// In-memory meaning of a real message in the vocabulary of the independent codec: digest as a
/// sorted list, delta as grouped member deltas.
#[derive(Clone, Debug, PartialEq, Eq, PartialOrd, Ord, Hash)]
pub enum Meaning {
    Syn { digest: Vec<DigestEntry>, cluster_id: String },
    SynAck { digest: Vec<DigestEntry>, members: Vec<MemberDelta> },
    Ack { members: Vec<MemberDelta> },
    BadCluster,
}

impl Meaning {
    pub fn members(&self) -> &[MemberDelta] {
        match self {
            Meaning::SynAck { members, .. } | Meaning::Ack { members } => members,
            _ => &[],
        }
    }
    pub fn digest(&self) -> &[DigestEntry] {
        match self {
            Meaning::Syn { digest, .. } | Meaning::SynAck { digest, .. } => digest,
            _ => &[],
        }
    }
    pub fn kind(&self) -> &'static str {
        match self {
            Meaning::Syn { .. } => "syn",
            Meaning::SynAck { .. } => "synack",
            Meaning::Ack { .. } => "ack",
            Meaning::BadCluster => "badcluster",
        }
    }
}

fn digest_of_view(d: &[DigestEntryView]) -> Vec<DigestEntry> {
    d.iter()
        .map(|e| DigestEntry {
            id: from_real_id(&e.chitchat_id),
            heartbeat: e.heartbeat,
            gc: e.last_gc_version,
            mv: e.max_version,
        })
        .collect()
}

fn members_of_view(d: &DeltaView) -> Vec<MemberDelta> {
    d.node_deltas
        .iter()
        .map(|nd| MemberDelta {
            id: from_real_id(&nd.chitchat_id),
            gc: nd.last_gc_version,
            from: nd.from_version_excluded,
            max_version: nd.max_version,
            kvs: nd
                .key_values
                .iter()
                .map(|kv| (kv.key.clone(), kv.value.clone(), kv.version, kv.status))
                .collect(),
        })
        .collect()
}

/// Meaning of a real in-memory message (through the `message_view` hook).
pub fn meaning_of_real(msg: &ChitchatMessage) -> Meaning {
    match chitchat::verif::message_view(msg) {
        MessageView::Syn { cluster_id, digest } => Meaning::Syn { digest: digest_of_view(&digest), cluster_id },
        MessageView::SynAck { digest, delta } => {
            Meaning::SynAck { digest: digest_of_view(&digest), members: members_of_view(&delta) }
        }
        MessageView::Ack { delta } => Meaning::Ack { members: members_of_view(&delta) },
        MessageView::BadCluster => Meaning::BadCluster,
    }
}

pub fn delta_serialized_len(msg: &ChitchatMessage) -> Option<usize> {
    match chitchat::verif::message_view(msg) {
        MessageView::SynAck { delta, .. } | MessageView::Ack { delta } => Some(delta.serialized_len),
        _ => None,
    }
}

/// Meaning of an AST message according to the documented decoder rules (digest: map semantics,
/// ops: grouped per member). Err if the documented rules reject the op sequence.
pub fn meaning_of_ast(msg: &Msg, strict_set_max: bool) -> Result<Meaning, String> {
    let dg = |d: &[DigestEntry]| -> Vec<DigestEntry> {
        codec::digest_as_map(d)
            .into_iter()
            .map(|(id, (heartbeat, gc, mv))| DigestEntry { id, heartbeat, gc, mv })
            .collect()
    };
    Ok(match msg {
        Msg::Syn { digest, cluster_id } => Meaning::Syn { digest: dg(digest), cluster_id: cluster_id.clone() },
        Msg::SynAck { digest, ops } => Meaning::SynAck {
            digest: dg(digest),
            members: codec::group_ops(ops, strict_set_max).map_err(|e| e.0)?,
        },
        Msg::Ack { ops } => Meaning::Ack { members: codec::group_ops(ops, strict_set_max).map_err(|e| e.0)? },
        Msg::BadCluster => Meaning::BadCluster,
    })
}
