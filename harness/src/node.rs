//! Construction of real `Chitchat` objects and plain-data snapshots of their state.

use std::collections::{BTreeMap, HashSet};
use std::net::SocketAddr;
use std::sync::atomic::{AtomicUsize, Ordering};
use std::sync::Arc;
use std::time::Duration;

use chitchat::{Chitchat, ChitchatConfig, ChitchatId, DeletionStatus, FailureDetectorConfig, NodeState};
use tokio::sync::watch;

use crate::codec::Id;
use crate::real::{from_real_id, to_real_id};

pub struct NodeOpts {
    pub cluster_id: String,
    pub grace: Duration,
    pub fd: FailureDetectorConfig,
    pub seeds: Vec<SocketAddr>,
    pub ready_predicate: bool,
    pub initial_kvs: Vec<(String, String)>,
}

impl Default for NodeOpts {
    fn default() -> Self {
        NodeOpts {
            cluster_id: "c".to_string(),
            grace: Duration::from_secs(10),
            fd: FailureDetectorConfig::new(
                8.0,
                1000,
                Duration::from_secs(10),
                Duration::from_secs(5),
                Duration::from_secs(1_000_000),
            ),
            seeds: vec![],
            ready_predicate: false,
            initial_kvs: vec![],
        }
    }
}

pub struct Node {
    pub id: Id,
    pub real_id: ChitchatId,
    pub cc: Chitchat,
    pub callbacks: Arc<AtomicUsize>,
    _seeds_tx: watch::Sender<HashSet<SocketAddr>>,
}

impl Node {
    pub fn new(id: &Id, opts: &NodeOpts) -> Node {
        crate::clock::ensure();
        let real_id = to_real_id(id);
        let callbacks = Arc::new(AtomicUsize::new(0));
        let cb = callbacks.clone();
        let config = ChitchatConfig {
            chitchat_id: real_id.clone(),
            cluster_id: opts.cluster_id.clone(),
            gossip_interval: Duration::from_secs(1),
            listen_addr: id.addr,
            seed_nodes: opts.seeds.iter().map(|a| a.to_string()).collect(),
            failure_detector_config: opts.fd.clone(),
            marked_for_deletion_grace_period: opts.grace,
            catchup_callback: Some(Box::new(move || {
                cb.fetch_add(1, Ordering::SeqCst);
            })),
            extra_liveness_predicate: if opts.ready_predicate {
                Some(Box::new(|ns: &NodeState| ns.get("READY") == Some("true")))
            } else {
                None
            },
        };
        let (tx, rx) = watch::channel(opts.seeds.iter().cloned().collect::<HashSet<_>>());
        let cc = Chitchat::with_chitchat_id_and_seeds(config, rx, opts.initial_kvs.clone());
        Node { id: id.clone(), real_id, cc, callbacks, _seeds_tx: tx }
    }

    pub fn callback_count(&self) -> usize {
        self.callbacks.load(Ordering::SeqCst)
    }

    pub fn snapshot(&self) -> NodeSnap {
        snapshot_of(&self.cc)
    }
}

/// status kind: 0 set, 1 deleted, 2 delete-after-ttl; `age` = now - time of (local) deletion mark.
#[derive(Clone, Debug, PartialEq, Eq, PartialOrd, Ord, Hash)]
pub struct EntrySnap {
    pub value: String,
    pub version: u64,
    pub status: u8,
    pub age: Option<Duration>,
}

#[derive(Clone, Debug, PartialEq, Eq, PartialOrd, Ord, Hash, Default)]
pub struct CopySnap {
    pub heartbeat: u64,
    pub gc: u64,
    pub mv: u64,
    pub entries: BTreeMap<String, EntrySnap>,
}

#[derive(Clone, Debug, PartialEq, Eq, Default)]
pub struct NodeSnap {
    pub copies: BTreeMap<Id, CopySnap>,
    pub live: Vec<Id>,
    pub dead: Vec<Id>,
    pub scheduled: Vec<Id>,
}

pub fn entry_snap(vv: &chitchat::VersionedValue, now: tokio::time::Instant) -> EntrySnap {
    let (status, age) = match vv.status {
        DeletionStatus::Set => (0u8, None),
        DeletionStatus::Deleted(t) => (1u8, Some(now.duration_since(t))),
        DeletionStatus::DeleteAfterTtl(t) => (2u8, Some(now.duration_since(t))),
    };
    EntrySnap { value: vv.value.clone(), version: vv.version, status, age }
}

pub fn copy_snap(ns: &NodeState) -> CopySnap {
    let now = tokio::time::Instant::now();
    CopySnap {
        heartbeat: ns.heartbeat().into(),
        gc: ns.last_gc_version(),
        mv: ns.max_version(),
        entries: ns.key_values_including_deleted().map(|(k, vv)| (k.to_string(), entry_snap(vv, now))).collect(),
    }
}

pub fn snapshot_of(cc: &Chitchat) -> NodeSnap {
    let mut live: Vec<Id> = cc.live_nodes().map(from_real_id).collect();
    live.sort();
    let mut dead: Vec<Id> = cc.dead_nodes().map(from_real_id).collect();
    dead.sort();
    let mut scheduled: Vec<Id> = cc.scheduled_for_deletion_nodes().map(from_real_id).collect();
    scheduled.sort();
    NodeSnap {
        copies: cc.node_states().iter().map(|(id, ns)| (from_real_id(id), copy_snap(ns))).collect(),
        live,
        dead,
        scheduled,
    }
}

pub fn status_kind(vv: &chitchat::VersionedValue) -> u8 {
    match vv.status {
        DeletionStatus::Set => 0,
        DeletionStatus::Deleted(_) => 1,
        DeletionStatus::DeleteAfterTtl(_) => 2,
    }
}

/// (status kind, age of the deletion mark)
pub fn entry_snap_light(vv: &chitchat::VersionedValue, now: tokio::time::Instant) -> (u8, Option<Duration>) {
    match vv.status {
        DeletionStatus::Set => (0, None),
        DeletionStatus::Deleted(t) => (1, Some(now.duration_since(t))),
        DeletionStatus::DeleteAfterTtl(t) => (2, Some(now.duration_since(t))),
    }
}
