//! Paused tokio clock owned by the harness. Every thread that touches chitchat objects gets its
//! own `current_thread` runtime built with `start_paused(true)`: `tokio::time::Instant::now()` is
//! frozen and moves only through [`advance`]. Only relative times are ever used.

use std::cell::RefCell;
use std::future::Future;
use std::time::Duration;

use tokio::runtime::{EnterGuard, Runtime};

struct Ctx {
    rt: &'static Runtime,
}

thread_local! {
    static CTX: RefCell<Option<Ctx>> = const { RefCell::new(None) };
}

fn with_rt<T>(f: impl FnOnce(&'static Runtime) -> T) -> T {
    let rt = CTX.with(|c| {
        let mut c = c.borrow_mut();
        if c.is_none() {
            let rt: &'static Runtime = Box::leak(Box::new(
                tokio::runtime::Builder::new_current_thread()
                    .enable_time()
                    .start_paused(true)
                    .build()
                    .expect("build paused runtime"),
            ));
            // the guard is leaked on purpose: it must outlive every chitchat object of this thread and
            // must not run its destructor during thread-local teardown
            let guard: EnterGuard<'static> = rt.enter();
            std::mem::forget(guard);
            *c = Some(Ctx { rt });
        }
        c.as_ref().unwrap().rt
    });
    f(rt)
}

/// Makes sure the current thread has its paused clock installed.
pub fn ensure() {
    with_rt(|_| ());
}

pub fn now() -> tokio::time::Instant {
    ensure();
    tokio::time::Instant::now()
}

/// Moves the paused clock of this thread forward by exactly `d`.
pub fn advance(d: Duration) {
    if d.is_zero() {
        return;
    }
    with_rt(|rt| {
        let before = tokio::time::Instant::now();
        rt.block_on(tokio::time::advance(d));
        let after = tokio::time::Instant::now();
        assert_eq!(after.duration_since(before), d, "paused clock did not move by the requested amount");
    });
}

/// Runs a future on this thread's paused runtime.
pub fn block_on<F: Future>(f: F) -> F::Output {
    with_rt(|rt| rt.block_on(f))
}

/// Self-check used at start-up: the clock must be frozen against real time.
pub fn self_check() {
    ensure();
    let a = tokio::time::Instant::now();
    std::thread::sleep(Duration::from_millis(3));
    let b = tokio::time::Instant::now();
    assert_eq!(a, b, "tokio clock is not paused");
    advance(Duration::from_millis(1500));
    assert_eq!(tokio::time::Instant::now().duration_since(a), Duration::from_millis(1500));
}
