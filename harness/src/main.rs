#![allow(dead_code)]
mod clock;
mod codec;
mod engines;
mod node;
mod real;
mod refmodel;
mod report;
mod util;
mod world;

use report::{Check, Tier};

fn usage() -> ! {
    eprintln!("usage: ccmc check <Cxx> [--tier quick|thorough]\n       ccmc replay <file>");
    std::process::exit(2);
}

fn main() {
    // error values of the code under test must not capture backtraces (anyhow does when this is set)
    std::env::set_var("RUST_BACKTRACE", "0");
    std::env::set_var("RUST_LIB_BACKTRACE", "0");
    util::install_panic_hook();
    clock::self_check();
    let args: Vec<String> = std::env::args().collect();
    if args.len() < 3 {
        usage();
    }
    if args[1] == "replay" && std::env::var("CCMC_REPLAY_IN_PROCESS").is_err() {
        // replays run in a child process too, so that an aborting replay is reported as such
        let st = std::process::Command::new(std::env::current_exe().unwrap()).args(&args[1..]).env("CCMC_REPLAY_IN_PROCESS", "1").status();
        match st {
            Ok(s) if s.code().is_some() => std::process::exit(s.code().unwrap()),
            Ok(s) => {
                println!("VIOLATION reproduced: the replay killed the process ({s})");
                std::process::exit(1)
            }
            Err(e) => {
                eprintln!("cannot spawn the replay process: {e}");
                std::process::exit(4)
            }
        }
    }
    match args[1].as_str() {
        "check" => {
            let prop = args[2].clone();
            let mut tier = match std::env::var("VERIF_TIER").ok().as_deref() {
                Some("thorough") => Tier::Thorough,
                _ => Tier::Quick,
            };
            let mut i = 3;
            while i < args.len() {
                if args[i] == "--tier" && i + 1 < args.len() {
                    tier = match args[i + 1].as_str() {
                        "quick" => Tier::Quick,
                        "thorough" => Tier::Thorough,
                        _ => usage(),
                    };
                    i += 1;
                }
                i += 1;
            }
            // Safety net: a panic of the code under test that escaped every engine's own capture must
            // still become a verdict, not a crash of the checker.
            let code = match std::panic::catch_unwind(std::panic::AssertUnwindSafe(|| run_check(&prop, tier))) {
                Ok(code) => code,
                Err(_) => {
                    let what = util::UNGUARDED_PANIC.lock().ok().and_then(|g| g.clone()).unwrap_or_else(|| "<panic>".into());
                    let loc = util::short_loc(&what);
                    if loc.contains("chitchat/src/") {
                        let dir = report::verif_dir().join("replays");
                        let _ = std::fs::create_dir_all(&dir);
                        let path = dir.join(format!("{prop}-escaped-panic.json"));
                        let _ = std::fs::write(&path, serde_json::to_string_pretty(&serde_json::json!({"engine":"top","property":prop,"observed":format!("the code under test panicked during the exploration: {what}"),"signature":format!("panic:{loc}")})).unwrap());
                        eprintln!("  the code under test panicked during the exploration: {what}");
                        println!("VIOLATION property={prop} replay={}", path.display());
                        1
                    } else {
                        eprintln!("MACHINERY FAILURE: the checker itself panicked: {what}");
                        3
                    }
                }
            };
            std::process::exit(code);
        }
        "explore" => {
            // experimentation: ccmc explore <plan> <quick|thorough> <secs> [prop]
            let tier = if args.get(3).map(|s| s.as_str()) == Some("thorough") { Tier::Thorough } else { Tier::Quick };
            let secs: u64 = args.get(4).and_then(|s| s.parse().ok()).unwrap_or(30);
            let prop: &'static str = Box::leak(args.get(5).cloned().unwrap_or("C02".into()).into_boxed_str());
            let part = engines::cluster::run_plan(&args[2], prop, tier, secs);
            for p in part {
                println!("{} states={} transitions={} exhaustive={} caps={:?}\n  tally={}", p.name, p.states, p.transitions, p.exhaustive, p.caps_hit, p.tally.to_json());
                for v in p.violations.iter().take(3) {
                    println!("  VIOL {} [{}] {}\n    {}", v.property, v.signature, v.what, v.replay["actions"]);
                }
            }
        }
        "hostile-child" => {
            let tier = if args[2] == "thorough" { Tier::Thorough } else { Tier::Quick };
            let start: usize = args[3].parse().unwrap_or(0);
            let end: usize = args[4].parse().unwrap_or(0);
            let secs: u64 = args[5].parse().unwrap_or(50);
            engines::hostile::child_main(tier, start, end, secs);
        }
        "debug-enabled" => {
            let s = std::fs::read_to_string(&args[2]).expect("read");
            let v: serde_json::Value = serde_json::from_str(&s).expect("parse");
            engines::cluster::debug_enabled(&v);
        }
        "replay" => {
            let s = std::fs::read_to_string(&args[2]).expect("read replay file");
            let v: serde_json::Value = serde_json::from_str(&s).expect("parse replay file");
            let r = match v["engine"].as_str().unwrap_or("") {
                "kv" => engines::kv::replay(&v),
                "cluster" => engines::cluster::replay_file(&v),
                "pair" => engines::pair::replay(&v),
                "mtu" => engines::mtu::replay(&v),
                "hostile" => engines::hostile::replay(&v),
                "catchup" => engines::catchup::replay(&v),
                "listeners" => engines::listeners::replay(&v),
                "select" => engines::select::replay(&v),
                "fd" => engines::fd::replay(&v),
                "membership" => engines::membership::replay(&v),
                "server" => engines::server::replay(&v),
                "isolation" => {
                    let p = engines::isolation::cut_foreign_syn();
                    match p.violations.first() {
                        Some(x) => Err(x.what.clone()),
                        None => Ok(()),
                    }
                }
                "wire" => {
                    let parts = engines::wire::run("C08", Tier::Quick, std::time::Instant::now());
                    match parts.iter().flat_map(|p| p.violations.iter()).next() {
                        Some(x) => Err(x.what.clone()),
                        None => Ok(()),
                    }
                }
                "top" => {
                    println!("this file records a panic of the code under test that escaped the engines: {}", v["observed"]);
                    println!("re-run the check of property {} to reproduce it", v["property"]);
                    Ok(())
                }
                e => Err(format!("unknown engine {e}")),
            };
            match r {
                Ok(()) => {
                    println!("OK (replay shows no violation)");
                    std::process::exit(0)
                }
                Err(e) => {
                    println!("VIOLATION reproduced: {e}");
                    std::process::exit(1)
                }
            }
        }
        _ => usage(),
    }
}

fn run_check(prop: &str, tier: Tier) -> i32 {
    let mut check = Check::new(prop, tier);
    let started = check.started;
    match prop {
        "C06" => {
            check.parts.extend(engines::kv::run(prop, tier, started));
            check.assumptions.push("alphabet: 5 keys (\"\", a, ab, b, é) x 2 values; grace period 1500 ms (deliberately not a whole number of seconds); clock advances of G-1 ms and 1 ms".into());
            check.outside_bounds.push("larger key/value alphabets; sequences longer than the exhaustive bound that are not covered by the abstraction of part 2".into());
        }
        "C01" | "C02" | "C03" | "C04" | "C05" | "C20" => {
            let p: &'static str = match prop { "C01" => "C01", "C02" => "C02", "C03" => "C03", "C04" => "C04", "C05" => "C05", _ => "C20" };
            check.parts.extend(engines::cluster::run(p, tier));
            if p == "C04" {
                check.parts.extend(engines::kv::run("C04", tier, std::time::Instant::now()).into_iter().take(1));
                check.parts.extend(engines::catchup::run_for("C04", tier, std::time::Instant::now()));
            }
            if p == "C03" {
                // entries installed through the catch-up entry point must be the supplied ones, unaltered
                check.parts.extend(engines::catchup::run_for("C03", tier, std::time::Instant::now()));
            }
            check.parts.extend(engines::pair::run(p, tier, std::time::Instant::now()));
            if p == "C01" {
                check.parts.extend(engines::membership::run("C01", tier, std::time::Instant::now()));
            }
        }
        "C07" => {
            check.parts.extend(engines::mtu::run(tier, started));
            check.parts.extend(engines::pair::run("C07", tier, std::time::Instant::now()));
            check.parts.extend(engines::cluster::run_traffic("C07", tier));
            check.parts.extend(engines::membership::run("C07", tier, std::time::Instant::now()));
        }
        "C18" => {
            check.parts.extend(engines::catchup::run(tier, started));
        }
        "C15" => {
            check.parts.extend(engines::listeners::run(tier, started));
        }
        "C17" => {
            check.parts.extend(engines::select::run(tier));
            check.parts.extend(engines::server::run_c17(tier, started));
        }
        "C10" | "C11" => {
            let p: &'static str = if prop == "C10" { "C10" } else { "C11" };
            check.parts.extend(engines::fd::run(p, tier, started));
        }
        "C12" | "C13" => {
            let p: &'static str = if prop == "C12" { "C12" } else { "C13" };
            check.parts.extend(engines::membership::run(p, tier, started));
        }
        "C16" => {
            check.parts.extend(engines::isolation::run(tier));
        }
        "C19" => {
            check.parts.extend(engines::server::run(tier, started));
        }
        "C09" => {
            check.parts.extend(engines::hostile::run(tier, started));
            check.parts.push(engines::server::udp_recv_sequences("C09", tier.pick(2, 3)));
        }
        "C08" => {
            check.parts.extend(engines::wire::run("C08", tier, started));
            check.parts.extend(engines::cluster::run_traffic("C08", tier));
        }
        "C14" => {
            check.parts.extend(engines::pair::run("C14", tier, started));
        }
        _ => {
            eprintln!("no check registered for {prop}");
            return 2;
        }
    }
    check.finish()
}
