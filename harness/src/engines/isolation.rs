//! `isolation` — clusters with different ids stay isolated (C16).

use std::collections::BTreeSet;
use std::sync::Arc;
use std::time::Instant;

use crate::engines::cluster::{add_found, explore, wall, Bounds};
use crate::refmodel::Call;
use crate::report::{Part, Tier};
use crate::world::Cfg;

pub const ID_PAIRS: [(&str, &str); 5] = [("a", "b"), ("", "a"), ("a", "ab"), ("ab", "a"), ("a", "A")];

fn cfg(first: usize, second: usize, ids: (&str, &str)) -> Cfg {
    let n = first + second;
    let mut cluster_ids = vec![ids.0.to_string(); first];
    cluster_ids.extend(vec![ids.1.to_string(); second]);
    // seeds are cross-configured: every node lists every other node, of either cluster
    let seeds: Vec<Vec<usize>> = (0..n).map(|i| (0..n).filter(|j| *j != i).collect()).collect();
    let mut props = BTreeSet::new();
    props.insert("C16");
    Cfg { n, keys: vec!["a".into(), "b".into()], vals: vec!["".into(), "1".into(), "2".into()], grace_ms: 10_000, cluster_ids, seeds, props, mapped_addr_nodes: vec![] }
}

pub fn run(tier: Tier) -> Vec<Part> {
    let mut parts = vec![];
    let shapes: Vec<(usize, usize, [u8; 7], u64)> = match tier {
        Tier::Quick => vec![(1, 1, [2, 3, 1, 0, 0, 0, 0], 6), (2, 1, [1, 3, 1, 0, 0, 0, 0], 12), (2, 2, [1, 2, 0, 0, 0, 0, 0], 12)],
        Tier::Thorough => vec![(1, 1, [3, 4, 2, 1, 1, 0, 0], 300), (2, 1, [2, 4, 1, 0, 0, 0, 0], 600), (2, 2, [1, 3, 1, 0, 0, 0, 0], 900), (3, 3, [1, 3, 0, 0, 0, 0, 0], 900), (1, 3, [1, 3, 1, 0, 0, 0, 0], 600)],
    };
    for (pi, ids) in ID_PAIRS.iter().enumerate() {
        for (first, second, v, secs) in &shapes {
            // the full shape list for the first id pair, the two smallest for the others
            if pi > 0 && (*first + *second > 3) {
                continue;
            }
            let cfg = Arc::new(cfg(*first, *second, *ids));
            let b = Bounds {
                name: format!("isolation-{}+{}-ids({:?},{:?})(w{},s{},d{})", first, second, ids.0, ids.1, v[0], v[1], v[2]),
                hs_mode: false,
                writers: (0..cfg.n as u8).collect(),
                calls: vec![Call::Set],
                nkeys: 1,
                vals: vec![1],
                writes: v[0],
                syns: v[1],
                dups: v[2],
                gcs: v[3],
                ticks: v[4],
                handshakes: 0,
                restarts: 0,
                max_states: tier.pick(1_500_000, 8_000_000),
            };
            let secs = if pi == 0 { *secs } else { (*secs / 2).max(4) };
            let ex = explore(&cfg, &b, wall(Instant::now(), secs), false);
            let mut part = ex.part;
            part.rule = format!("two clusters of {first} and {second} real nodes with cluster ids {:?} / {:?}, seeds cross-configured, SYNs may target any node of either cluster; {}", ids.0, ids.1, part.rule);
            add_found(&mut part, &cfg, &b, ex.found);
            part.require("c16_foreign_syns");
            part.require("c16_badcluster_processed");
            parts.push(part);
        }
    }
    parts
}
