//! `isolation` — clusters with different ids stay isolated (C16).

use std::collections::BTreeSet;
use std::sync::Arc;
use std::time::Instant;

use crate::engines::cluster::{add_found, explore, wall, Bounds};
use crate::refmodel::Call;
use crate::report::{Part, Tier};
use crate::world::Cfg;

pub const ID_PAIRS: [(&str, &str); 8] = [("a", "b"), ("", "a"), ("a", "ab"), ("ab", "a"), ("a", "A"), ("a", "a\n"), (" a", "a"), (" ", "")];

fn cfg(first: usize, second: usize, ids: (&str, &str)) -> Cfg {
    let n = first + second;
    let mut cluster_ids = vec![ids.0.to_string(); first];
    cluster_ids.extend(vec![ids.1.to_string(); second]);
    // seeds are cross-configured: every node lists every other node, of either cluster
    let seeds: Vec<Vec<usize>> = (0..n).map(|i| (0..n).filter(|j| *j != i).collect()).collect();
    let mut props = BTreeSet::new();
    props.insert("C16");
    Cfg { n, keys: vec!["a".into(), "b".into()], vals: vec!["".into(), "1".into(), "2".into()], grace_ms: 10_000, cluster_ids, seeds, props, mapped_addr_nodes: vec![], same_node_id_as_0: vec![] }
}

/// Every prefix of a foreign cluster's SYN (a datagram that lost its tail), for cluster ids in every
/// relation, delivered to a real node: it is undecodable, or it is rejected and changes nothing.
pub fn cut_foreign_syn() -> Part {
    use crate::codec::{self, DigestEntry, Id, Msg, Op};
    use crate::node::{Node, NodeOpts};
    use crate::real;
    use crate::util::guarded;
    let mut part = Part::new("isolation/cut-foreign-syn");
    part.rule = "a real node of cluster `own` (knowing one member with one key, and owning a key) receives every prefix (including the whole) of the bytes of a SYN of cluster `foreign` whose digest lists two foreign members, for (own, foreign) in {a/b, a/ab, ab/a, prod/prod-eu, prod-eu/prod, \"\"/a, a/\"\", a/A, and ids of 65-256 bytes with multi-byte characters (one straddling byte 64)}; each prefix either fails to decode, or is answered by exactly BadCluster and leaves the node's members, key-values, heartbeats of other members and live/dead sets untouched; non-trivial = prefixes that decode".into();
    // long ids too: 63 ASCII bytes followed by a 2-byte character (a character straddles byte 64), 255 and
    // 256 bytes, a 4-byte character at the front
    let long1 = format!("{}é-cluster", "x".repeat(63));
    let long2 = "é".repeat(127) + "x";
    let long3 = "😀".repeat(64);
    let pairs: Vec<(String, String)> = [("a", "b"), ("a", "ab"), ("ab", "a"), ("prod", "prod-eu"), ("prod-eu", "prod"), ("", "a"), ("a", ""), ("a", "A")]
        .iter()
        .map(|(a, b)| (a.to_string(), b.to_string()))
        .chain([("a".to_string(), "a\n".to_string()), ("a\n".to_string(), "a".to_string()), (" a".to_string(), "a\t".to_string()), ("a".to_string(), long1.clone()), (long1.clone(), "a".to_string()), ("a".to_string(), long2.clone()), (long2, long1), ("prod".to_string(), long3)])
        .collect();
    let mut n_cases = 0u64;
    for (own, foreign) in pairs.iter().map(|(a, b)| (a.as_str(), b.as_str())) {
        let f1 = Id::v4("foreign-1", 1, 12_001);
        let f2 = Id::v4("foreign-2", 1, 12_002);
        let syn = codec::encode(&Msg::Syn { digest: vec![DigestEntry { id: f1.clone(), heartbeat: 7, gc: 0, mv: 3 }, DigestEntry { id: f2.clone(), heartbeat: 9, gc: 1, mv: 2 }], cluster_id: foreign.to_string() });
        for n in 0..=syn.len() {
            n_cases += 1;
            let bytes = &syn[..n];
            let msg = match guarded(|| real::real_decode(bytes)) {
                Err(p) => {
                    part.violation("C16", format!("decoding a SYN of cluster {foreign:?} cut to {n} bytes panicked: {p}"), "panic".into(), json_case(own, foreign, n));
                    continue;
                }
                Ok(Err(_)) => {
                    part.tally.inc("undecodable_prefixes");
                    continue;
                }
                Ok(Ok((m, _))) => m,
            };
            part.tally.inc("decodable_prefixes");
            let mut node = Node::new(&Id::v4("own-node", 1, 12_000), &NodeOpts { cluster_id: own.to_string(), ..Default::default() });
            let known = Id::v4("own-peer", 1, 12_003);
            node.cc.verif_process_message(real::build_real(&Msg::Syn { digest: vec![DigestEntry { id: known.clone(), heartbeat: 1, gc: 0, mv: 0 }], cluster_id: own.to_string() }).unwrap());
            node.cc.verif_process_message(real::build_real(&Msg::Ack { ops: vec![Op::Node { id: known.clone(), gc: 0, from: 0 }, Op::Kv { key: "k".into(), value: "v".into(), version: 1, status: 0 }] }).unwrap());
            node.cc.self_node_state().set("mine", "1");
            let snapshot = |node: &Node| -> String {
                let mut parts: Vec<String> = vec![];
                for (id, ns) in node.cc.node_states() {
                    let hb: u64 = if *id == node.real_id { 0 } else { ns.heartbeat().into() };
                    let kvs: Vec<String> = ns.key_values_including_deleted().map(|(k, vv)| format!("{k}={}@{}", vv.value, vv.version)).collect();
                    parts.push(format!("{} hb{hb} gc{} mv{} {kvs:?}", id.node_id, ns.last_gc_version(), ns.max_version()));
                }
                let mut live: Vec<String> = node.cc.live_nodes().map(|i| i.node_id.clone()).collect();
                live.sort();
                let mut dead: Vec<String> = node.cc.dead_nodes().map(|i| i.node_id.clone()).collect();
                dead.sort();
                parts.push(format!("live{live:?} dead{dead:?}"));
                parts.join(" | ")
            };
            let before = snapshot(&node);
            let reply = match guarded(|| node.cc.verif_process_message(msg)) {
                Ok(r) => r,
                Err(p) => {
                    part.violation("C16", format!("processing a SYN of cluster {foreign:?} cut to {n} bytes panicked: {p}"), "panic".into(), json_case(own, foreign, n));
                    continue;
                }
            };
            let after = snapshot(&node);
            let rejected = matches!(reply.as_ref().map(real::meaning_of_real), Some(real::Meaning::BadCluster));
            if !rejected {
                part.violation("C16", format!("node of cluster {own:?}: a SYN of cluster {foreign:?} cut to {n} of {} bytes is answered by {} instead of a rejection", syn.len(), reply.as_ref().map(|r| real::meaning_of_real(r).kind()).unwrap_or("nothing")), "foreign-syn-not-rejected".into(), json_case(own, foreign, n));
            }
            if after != before {
                part.violation("C16", format!("node of cluster {own:?}: a SYN of cluster {foreign:?} cut to {n} of {} bytes changed the node's state: {before} -> {after}", syn.len()), "state-changed-by-foreign-syn".into(), json_case(own, foreign, n));
            }
        }
    }
    part.states = n_cases;
    part.transitions = n_cases;
    part.executions = n_cases;
    part.distinct_nontrivial = part.tally.get("decodable_prefixes");
    part.sample(serde_json::json!({"own": "prod", "foreign": "prod-eu", "cut_to": "len - 3"}));
    part.require("decodable_prefixes");
    part.require("undecodable_prefixes");
    part
}

fn json_case(own: &str, foreign: &str, n: usize) -> serde_json::Value {
    serde_json::json!({"engine":"isolation","kind":"cut-foreign-syn","own":own,"foreign":foreign,"cut_to":n})
}

pub fn run(tier: Tier) -> Vec<Part> {
    let mut parts = vec![cut_foreign_syn()];
    let shapes: Vec<(usize, usize, [u8; 7], u64)> = match tier {
        Tier::Quick => vec![(1, 1, [2, 3, 1, 0, 0, 0, 0], 6), (2, 1, [1, 3, 1, 0, 0, 0, 0], 12), (2, 2, [1, 2, 0, 0, 0, 0, 0], 12)],
        Tier::Thorough => vec![(1, 1, [3, 4, 2, 1, 1, 0, 0], 300), (2, 1, [2, 4, 1, 0, 0, 0, 0], 600), (2, 2, [1, 3, 1, 0, 0, 0, 0], 900), (3, 3, [1, 3, 0, 0, 0, 0, 0], 900), (1, 3, [1, 3, 1, 0, 0, 0, 0], 600)],
    };
    for (pi, ids) in ID_PAIRS.iter().enumerate() {
        for (first, second, v, secs) in &shapes {
            // the full shape list for the first id pair, the two smallest for the others
            if pi > 0 && (*first + *second > 3) {
                continue;
            }
            let cfg = Arc::new(cfg(*first, *second, *ids));
            let b = Bounds {
                name: format!("isolation-{}+{}-ids({:?},{:?})(w{},s{},d{})", first, second, ids.0, ids.1, v[0], v[1], v[2]),
                hs_mode: false,
                writers: (0..cfg.n as u8).collect(),
                calls: vec![Call::Set],
                nkeys: 1,
                vals: vec![1],
                writes: v[0],
                syns: v[1],
                dups: v[2],
                gcs: v[3],
                ticks: v[4],
                handshakes: 0,
                restarts: 0,
                max_states: tier.pick(1_500_000, 8_000_000),
            };
            let secs = if pi == 0 { *secs } else { (*secs / 2).max(4) };
            let ex = explore(&cfg, &b, wall(Instant::now(), secs), false);
            let mut part = ex.part;
            part.rule = format!("two clusters of {first} and {second} real nodes with cluster ids {:?} / {:?}, seeds cross-configured, SYNs may target any node of either cluster; {}", ids.0, ids.1, part.rule);
            add_found(&mut part, &cfg, &b, ex.found);
            part.require("c16_foreign_syns");
            part.require("c16_badcluster_processed");
            parts.push(part);
        }
    }
    parts
}
