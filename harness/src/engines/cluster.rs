//! `cluster` — explicit-state exploration of N real nodes (C01-C05, C20; C07/C08 on traffic).

use std::collections::{HashMap, HashSet};
use std::sync::Arc;
use std::time::{Duration, Instant};

use rayon::prelude::*;
use serde_json::{json, Value};

use crate::refmodel::Call;
use crate::report::Part;
use crate::util::{hash128, Tally};
use crate::world::{Action, Cfg, StepOut, Used, World};

#[derive(Clone, Debug)]
pub struct Bounds {
    pub name: String,
    pub hs_mode: bool,
    pub writers: Vec<u8>,
    pub calls: Vec<Call>,
    pub nkeys: u8,
    pub vals: Vec<u8>,
    pub writes: u8,
    pub syns: u8,
    pub dups: u8,
    pub gcs: u8,
    pub ticks: u8,
    pub handshakes: u8,
    pub restarts: u8,
    pub max_states: usize,
}

impl Bounds {
    pub fn to_json(&self, cfg: &Cfg) -> Value {
        json!({
            "nodes": cfg.n, "mode": if self.hs_mode {"handshake-granularity"} else {"message-granularity"},
            "writers": self.writers, "calls": self.calls.iter().map(|c| c.name()).collect::<Vec<_>>(),
            "keys": &cfg.keys[..self.nkeys as usize],
            "values": self.vals.iter().map(|v| { let s=&cfg.vals[*v as usize]; if s.len()>16 {format!("<{} bytes>", s.len())} else {s.clone()} }).collect::<Vec<_>>(),
            "max_writes": self.writes, "max_syn_initiations": self.syns, "max_duplicate_deliveries": self.dups, "max_gc_passes": self.gcs,
            "max_ticks_of_one_grace_period": self.ticks, "max_handshakes": self.handshakes, "max_restarts": self.restarts, "grace_ms": cfg.grace_ms,
        })
    }
}

pub type History = Vec<Action>;

pub fn replay(cfg: &Arc<Cfg>, h: &[Action]) -> (World, Tally) {
    let mut w = World::new(cfg.clone());
    let mut t = Tally::default();
    for a in h {
        let out = w.apply(a, false);
        t.merge(&out.tally);
    }
    (w, t)
}

fn state_key(w: &World) -> u128 {
    hash128(&(w.config_key(), w.bag_key()))
}

fn used_vec(u: &Used) -> [u8; 7] {
    [u.writes, u.syns, u.dups, u.gcs, u.ticks, u.handshakes, u.restarts]
}

/// true if `a` used at most as much of every budget as `b`
fn dominates(a: &[u8; 7], b: &[u8; 7]) -> bool {
    a.iter().zip(b.iter()).all(|(x, y)| x <= y)
}

fn config_hash(w: &World) -> u128 {
    hash128(&w.config_key())
}

fn any_collectable(w: &World, i: usize) -> bool {
    w.copies(i).values().any(|c| c.entries.values().any(|(_, st, old, _)| *st != 0 && *old))
}

fn any_young_mark(w: &World) -> bool {
    (0..w.cfg.n).any(|i| w.copies(i).values().any(|c| c.entries.values().any(|(_, st, old, _)| *st != 0 && !*old)))
}

/// Symmetry breaking by first use: keys, values (of one size class) and non-writer nodes are
/// interchangeable for the protocol (it never inspects them, and every equal-staleness order is
/// enumerated through the scripted shuffle), so a fresh key / value / node may only be introduced
/// in index order.
fn fresh_limits(w: &World, b: &Bounds) -> (u8, Vec<u8>, u8) {
    // keys: number of distinct keys ever written, by any owner
    let mut used_keys: std::collections::BTreeSet<&str> = Default::default();
    let mut used_vals: std::collections::BTreeSet<&str> = Default::default();
    for l in w.ledgers.values() {
        for wr in &l.ledger {
            used_keys.insert(wr.key.as_str());
            used_vals.insert(wr.value.as_str());
        }
    }
    let key_limit = (0..b.nkeys).take_while(|k| used_keys.contains(w.cfg.keys[*k as usize].as_str())).count() as u8 + 1;
    // values: within each size class (small / big), the first unused one is allowed, later ones not
    let mut allowed_vals = vec![];
    let mut fresh_small = false;
    let mut fresh_big = false;
    for &v in &b.vals {
        let s = &w.cfg.vals[v as usize];
        let big = s.len() > 16;
        if used_vals.contains(s.as_str()) {
            allowed_vals.push(v);
        } else if big && !fresh_big {
            fresh_big = true;
            allowed_vals.push(v);
        } else if !big && !fresh_small {
            fresh_small = true;
            allowed_vals.push(v);
        }
    }
    // nodes: a non-writer node may be involved only if all lower non-writer nodes already were
    let mut node_limit = w.cfg.n as u8;
    for i in 0..w.cfg.n as u8 {
        if b.writers.contains(&i) {
            continue;
        }
        // untouched = knows nobody but itself and nobody knows it
        let knows_others = w.nodes[i as usize].cc.node_states().len() > 1;
        let known_by_others = (0..w.cfg.n).any(|j| j != i as usize && w.nodes[j].cc.node_state(&w.nodes[i as usize].real_id).is_some());
        let in_flight = w.bag.iter().any(|m| m.from == i || m.to == i);
        if !knows_others && !known_by_others && !in_flight {
            node_limit = i + 1;
            break;
        }
    }
    (key_limit.min(b.nkeys), allowed_vals, node_limit)
}

pub fn enabled(w: &World, b: &Bounds) -> Vec<Action> {
    let mut acts = vec![];
    let u: &Used = &w.used;
    let (key_limit, allowed_vals, node_limit) = fresh_limits(w, b);
    if u.writes < b.writes {
        for &node in &b.writers {
            let ledger = &w.ledgers[&w.nodes[node as usize].id];
            for &call in &b.calls {
                for key in 0..key_limit {
                    let k = &w.cfg.keys[key as usize];
                    match call {
                        Call::Set | Call::SetTtl => {
                            for &val in &allowed_vals {
                                // skip no-ops (covered by the kv engine): same value, same status
                                let st = if call == Call::Set { 0 } else { 2 };
                                if let Some(e) = ledger.entries.get(k) {
                                    if e.value == w.cfg.vals[val as usize] && e.status == st {
                                        continue;
                                    }
                                }
                                acts.push(Action::Write { node, call, key, val });
                            }
                        }
                        Call::Delete | Call::DeleteTtl => {
                            if ledger.entries.contains_key(k) {
                                acts.push(Action::Write { node, call, key, val: 0 });
                            }
                        }
                    }
                }
            }
        }
    }
    if b.hs_mode {
        if u.handshakes < b.handshakes {
            for from in 0..node_limit {
                for to in 0..node_limit {
                    if from != to {
                        acts.push(Action::Handshake { from, to, choices: vec![] });
                    }
                }
            }
        }
    } else {
        if u.syns < b.syns {
            for from in 0..node_limit {
                for to in 0..node_limit {
                    if from != to {
                        acts.push(Action::Syn { from, to });
                    }
                }
            }
        }
        let mut seen: Vec<(u8, u8, &crate::real::Meaning)> = vec![];
        for (idx, m) in w.bag.iter().enumerate() {
            if seen.iter().any(|(f, t, mm)| *f == m.from && *t == m.to && **mm == *m.meaning) {
                continue;
            }
            seen.push((m.from, m.to, &m.meaning));
            acts.push(Action::Deliver { idx: idx as u8, keep: false, choices: vec![] });
            if u.dups < b.dups {
                acts.push(Action::Deliver { idx: idx as u8, keep: true, choices: vec![] });
            }
        }
    }
    if u.gcs < b.gcs {
        for node in 0..w.cfg.n {
            if any_collectable(w, node) {
                acts.push(Action::Gc { node: node as u8 });
            }
        }
    }
    if u.ticks < b.ticks && any_young_mark(w) {
        acts.push(Action::Tick);
    }
    if u.restarts < b.restarts {
        for node in 0..w.cfg.n as u8 {
            acts.push(Action::Restart { node });
        }
    }
    acts
}

pub struct Found {
    pub property: &'static str,
    pub what: String,
    pub signature: String,
    pub history: History,
}

/// Executes `base` (and every scripted-choice sibling of it) after `hist`; calls `f` for each.
fn for_each_choice_variant(cfg: &Arc<Cfg>, hist: &[Action], base: &Action, mut f: impl FnMut(Action, World, StepOut)) {
    let mut stack: Vec<Action> = vec![base.clone()];
    while let Some(a) = stack.pop() {
        let (mut w, _) = replay(cfg, hist);
        let out = w.apply(&a, true);
        let fixed = a.choices().len();
        for p in fixed..out.choice_log.len() {
            let cp = out.choice_log[p];
            for alt in 1..cp.arity {
                let mut c: Vec<u8> = out.choice_log[..p].iter().map(|c| c.chosen as u8).collect();
                c.push(alt as u8);
                stack.push(a.with_choices(c));
            }
        }
        f(a, w, out);
    }
}

pub struct Explored {
    pub part: Part,
    /// one representative history per distinct node-state configuration
    pub configs: HashMap<u128, History>,
    pub found: Vec<Found>,
}

pub fn replay_json(cfg: &Cfg, b: &Bounds, h: &[Action]) -> Value {
    json!({"engine":"cluster","config":{"nodes":cfg.n,"big_values":cfg.vals.len()>3,"grace_ms":cfg.grace_ms,"bounds":b.name,"mapped_addr_nodes":cfg.mapped_addr_nodes,"same_node_id_as_0":cfg.same_node_id_as_0},
           "actions": h.iter().map(|a| a.to_json(cfg)).collect::<Vec<_>>()})
}

/// Breadth-first exploration of all histories within the budgets.
pub fn explore(cfg: &Arc<Cfg>, b: &Bounds, deadline: Instant, collect_configs: bool) -> Explored {
    explore_from(cfg, b, &[], deadline, collect_configs)
}

/// Same, starting from the state reached by a deterministic prefix ("start from non-initial
/// states"); the budgets count what is used after the prefix.
pub fn explore_from(cfg: &Arc<Cfg>, b: &Bounds, prefix: &[Action], deadline: Instant, collect_configs: bool) -> Explored {
    let mut part = Part::new(&format!("cluster/{}", b.name));
    part.bounds = b.to_json(cfg);
    part.rule = "breadth-first search over histories of actions on real Chitchat nodes; a state is re-created by replaying its history on fresh nodes; states are deduplicated on (per node, per member copy: watermark, max version, entries with version/status/age class; multiset of in-flight messages without heartbeats) and a state is pruned when the same configuration was already reached with no more of every budget used (its futures are a subset); keys, values of one size class and non-writer nodes are introduced in index order (symmetry); the oracles run on every transition; non-trivial = distinct reachable states other than the initial one".into();
    // (configuration + in-flight messages) -> antichain of budget-usage vectors already explored
    let mut seen: HashMap<u128, Vec<[u8; 7]>> = HashMap::new();
    let mut configs: HashMap<u128, History> = HashMap::new();
    let mut found: Vec<Found> = vec![];
    let (w0, _) = replay(cfg, prefix);
    seen.insert(state_key(&w0), vec![used_vec(&w0.used)]);
    if collect_configs {
        configs.insert(config_hash(&w0), prefix.to_vec());
    }
    let prefix_used = w0.used.clone();
    drop(w0);
    let mut frontier: Vec<History> = vec![prefix.to_vec()];
    // budgets are counted after the prefix
    let mut b_abs = b.clone();
    b_abs.writes += prefix_used.writes;
    b_abs.syns += prefix_used.syns;
    b_abs.dups += prefix_used.dups;
    b_abs.gcs += prefix_used.gcs;
    b_abs.ticks += prefix_used.ticks;
    b_abs.handshakes += prefix_used.handshakes;
    b_abs.restarts += prefix_used.restarts;
    let b_abs = b_abs;
    let mut depth = 0usize;
    let mut states = 1u64;
    while !frontier.is_empty() {
        if Instant::now() > deadline || states as usize > b.max_states {
            part.exhaustive = false;
            part.caps_hit.push(format!("stopped before expanding depth {depth} ({} frontier states; wall or state cap); every history of length <= {depth} was executed", frontier.len()));
            break;
        }
        type Succ = (u128, [u8; 7], u128, History);
        let results: Vec<(Vec<Succ>, Vec<Found>, Tally)> = frontier
            .par_iter()
            .map(|hist| {
                let mut succ: Vec<Succ> = vec![];
                let mut fnd: Vec<Found> = vec![];
                let mut tally = Tally::default();
                let (w, _) = replay(cfg, hist);
                let acts = enabled(&w, &b_abs);
                drop(w);
                for base in acts {
                    for_each_choice_variant(cfg, hist, &base, |a, w2, out| {
                        tally.inc("transitions");
                        tally.merge(&out.tally);
                        if !a.choices().is_empty() {
                            tally.inc("scripted_choice_variants");
                        }
                        let mut h2 = hist.clone();
                        h2.push(a);
                        for (p, what, sig) in out.violations {
                            fnd.push(Found { property: p, what, signature: sig, history: h2.clone() });
                        }
                        if !out.panicked {
                            succ.push((state_key(&w2), used_vec(&w2.used), config_hash(&w2), h2));
                        }
                    });
                }
                (succ, fnd, tally)
            })
            .collect();
        let mut next: Vec<Succ> = vec![];
        for (s, f, t) in results {
            part.tally.merge(&t);
            found.extend(f);
            next.extend(s);
        }
        next.par_sort_unstable();
        let mut new_frontier = vec![];
        for (k, used, ck, h) in next {
            let chain = seen.entry(k).or_default();
            if chain.iter().any(|u| dominates(u, &used)) {
                part.tally.inc("pruned_dominated_or_duplicate");
                continue;
            }
            chain.retain(|u| !dominates(&used, u));
            chain.push(used);
            {
                states += 1;
                if collect_configs {
                    configs.entry(ck).or_insert_with(|| h.clone());
                }
                new_frontier.push(h);
            }
        }
        depth += 1;
        part.tally.max("max_depth", depth as u64);
        if let Some(h) = new_frontier.get(new_frontier.len() / 2) {
            if depth >= 4 {
                part.sample(json!(h.iter().map(|a| a.to_json(cfg)).collect::<Vec<_>>()));
            }
        }
        frontier = new_frontier;
        if found.len() > 2000 {
            part.exhaustive = false;
            part.caps_hit.push("stopped early: more than 2000 violating transitions collected".into());
            break;
        }
    }
    if let Ok(f) = std::env::var("CCMC_TRACE") {
        // debug aid: is every prefix of the given history represented in the explored set?
        if let Ok(txt) = std::fs::read_to_string(&f) {
            if let Ok(v) = serde_json::from_str::<Value>(&txt) {
                let actions: Vec<Action> = v["actions"].as_array().map(|a| a.iter().filter_map(|x| Action::from_json(x, cfg)).collect()).unwrap_or_default();
                for n in 0..=actions.len() {
                    let (w, _) = replay(cfg, &actions[..n]);
                    let k = state_key(&w);
                    eprintln!("TRACE prefix {n}: used {:?} in_seen={} chain={:?}", used_vec(&w.used), seen.contains_key(&k), seen.get(&k));
                }
            }
        }
    }
    part.states = states;
    part.transitions = part.tally.get("transitions");
    part.executions = part.transitions;
    part.distinct_nontrivial = states.saturating_sub(1);
    part.tally.add("distinct_node_configurations", configs.len() as u64);
    Explored { part, configs, found }
}

// ------------------------------------------------------------------ C01 closure

pub struct Closure {
    pub part: Part,
    pub found: Vec<Found>,
}

/// From every given configuration (in-flight messages discarded), explores every sequence of
/// complete loss-free handshakes among `group` to fixpoint, memoised globally.
pub fn closure(cfg: &Arc<Cfg>, b: &Bounds, starts: &HashMap<u128, History>, group: &[u8], deadline: Instant) -> Closure {
    let mut part = Part::new(&format!("cluster/{}/closure{:?}", b.name, group));
    part.rule = "from every distinct node-state configuration reached by the exploration (in-flight messages discarded = lost), the complete graph of all sequences of complete loss-free handshakes over all ordered pairs of the group, to fixpoint, memoised on the configuration; every edge checked for progress, every terminal configuration for convergence, the graph for cycles and its longest path".into();
    part.bounds = json!({"group": group, "start_configurations": starts.len()});
    let mut found: Vec<Found> = vec![];
    let mut seen: HashSet<u128> = starts.keys().cloned().collect();
    let mut edges: HashMap<u128, Vec<u128>> = HashMap::new();
    let mut frontier: Vec<(u128, History)> = starts.iter().map(|(k, h)| (*k, h.clone())).collect();
    frontier.sort();
    let pairs: Vec<(u8, u8)> = group.iter().flat_map(|i| group.iter().filter(move |j| *j != i).map(move |j| (*i, *j))).collect();
    let mut capped = false;
    while !frontier.is_empty() {
        if Instant::now() > deadline {
            capped = true;
            break;
        }
        type Out = (u128, Vec<(u128, History)>, Vec<Found>, Tally, bool);
        let results: Vec<Out> = frontier
            .par_iter()
            .map(|(key, hist)| {
                let mut succ = vec![];
                let mut fnd = vec![];
                let mut tally = Tally::default();
                let mut all_self_loops = true;
                for (from, to) in &pairs {
                    let base = Action::Handshake { from: *from, to: *to, choices: vec![] };
                    // progress oracle needs the copies before the handshake
                    let (w, _) = replay(cfg, hist);
                    let before_i = w.copies(*from as usize);
                    let before_j = w.copies(*to as usize);
                    drop(w);
                    for_each_choice_variant(cfg, hist, &base, |a, w2, out| {
                        tally.inc("handshakes");
                        let mut h2 = hist.clone();
                        h2.push(a);
                        for (p, what, sig) in out.violations {
                            fnd.push(Found { property: p, what, signature: sig, history: h2.clone() });
                        }
                        if out.panicked {
                            return;
                        }
                        let after_i = w2.copies(*from as usize);
                        let after_j = w2.copies(*to as usize);
                        // lagging copies before the handshake
                        let mut lagging = 0;
                        let mut advanced = 0;
                        let members: std::collections::BTreeSet<_> = before_i.keys().chain(before_j.keys()).cloned().collect();
                        for m in &members {
                            let (bi, bj) = (before_i.get(m), before_j.get(m));
                            let mvi = bi.map(|c| c.mv).unwrap_or(0);
                            let mvj = bj.map(|c| c.mv).unwrap_or(0);
                            if mvi == mvj {
                                continue;
                            }
                            lagging += 1;
                            let (b, a) = if mvi < mvj { (bi, after_i.get(m)) } else { (bj, after_j.get(m)) };
                            let bf = b.map(|c| (c.gc, c.mv)).unwrap_or((0, 0));
                            let af = a.map(|c| (c.gc, c.mv)).unwrap_or((0, 0));
                            if af > bf {
                                advanced += 1;
                            }
                        }
                        if lagging > 0 {
                            tally.inc("handshakes_with_lagging_copy");
                            if advanced == 0 {
                                fnd.push(Found {
                                    property: "C01",
                                    what: format!("complete handshake {from}->{to} with {lagging} lagging copies advanced none of them"),
                                    signature: "no-progress-edge".into(),
                                    history: h2.clone(),
                                });
                            }
                        }
                        let k2 = config_hash(&w2);
                        if k2 != *key {
                            all_self_loops = false;
                        }
                        succ.push((k2, h2));
                    });
                }
                if all_self_loops {
                    tally.inc("terminal_configurations");
                    // convergence at the terminal configuration
                    let (w, _) = replay(cfg, hist);
                    let mut members: std::collections::BTreeMap<crate::codec::Id, Vec<Option<u64>>> = Default::default();
                    for i in group {
                        let c = w.copies(*i as usize);
                        for (m, cp) in &c {
                            members.entry(m.clone()).or_insert_with(|| vec![None; w.cfg.n])[*i as usize] = Some(cp.mv);
                        }
                    }
                    for (m, mvs) in &members {
                        let top = mvs.iter().flatten().max().cloned().unwrap_or(0);
                        let owner_in_group = group.iter().any(|i| &w.nodes[*i as usize].id == m);
                        let target = if owner_in_group { w.ledgers[m].mv } else { top };
                        for i in group {
                            let mv = mvs[*i as usize];
                            let ok = match mv {
                                Some(v) => v == target,
                                None => target == 0 && !owner_in_group,
                            };
                            if !ok && top > 0 {
                                fnd.push(Found {
                                    property: "C01",
                                    what: format!("terminal configuration: node {i} holds {} at {:?}, target max version {target}", m.node_id, mv),
                                    signature: "terminal-not-converged".into(),
                                    history: hist.clone(),
                                });
                            }
                        }
                    }
                }
                (*key, succ, fnd, tally, all_self_loops)
            })
            .collect();
        let mut next: Vec<(u128, History)> = vec![];
        for (key, succ, fnd, tally, _) in results {
            part.tally.merge(&tally);
            found.extend(fnd);
            let e = edges.entry(key).or_default();
            for (k2, h2) in succ {
                if k2 != key {
                    e.push(k2);
                }
                next.push((k2, h2));
            }
            e.sort();
            e.dedup();
        }
        next.sort();
        let mut nf = vec![];
        for (k, h) in next {
            if seen.insert(k) {
                nf.push((k, h));
            }
        }
        frontier = nf;
        if found.len() > 500 {
            capped = true;
            break;
        }
    }
    // cycle detection + longest path (iterative DFS with memo)
    let mut longest: HashMap<u128, u32> = HashMap::new();
    let mut on_stack: HashSet<u128> = HashSet::new();
    let mut cycle = false;
    let mut max_path = 0u32;
    if !capped {
        let keys: Vec<u128> = edges.keys().cloned().collect();
        for root in keys {
            if longest.contains_key(&root) {
                continue;
            }
            let mut stack: Vec<(u128, usize)> = vec![(root, 0)];
            on_stack.insert(root);
            while let Some((node, idx)) = stack.last().cloned() {
                let succs = edges.get(&node).map(|v| v.as_slice()).unwrap_or(&[]);
                if idx < succs.len() {
                    stack.last_mut().unwrap().1 += 1;
                    let s = succs[idx];
                    if on_stack.contains(&s) {
                        cycle = true;
                        continue;
                    }
                    if !longest.contains_key(&s) {
                        on_stack.insert(s);
                        stack.push((s, 0));
                    }
                } else {
                    let l = succs.iter().map(|s| longest.get(s).cloned().unwrap_or(0) + 1).max().unwrap_or(0);
                    longest.insert(node, l);
                    max_path = max_path.max(l);
                    on_stack.remove(&node);
                    stack.pop();
                }
            }
        }
        if cycle {
            found.push(Found {
                property: "C01",
                what: "the handshake graph contains a cycle of configuration-changing handshakes (no bounded convergence)".into(),
                signature: "handshake-cycle".into(),
                history: vec![],
            });
        }
    }
    part.tally.max("max_longest_handshake_path_to_fixpoint", max_path as u64);
    part.states = seen.len() as u64;
    part.transitions = part.tally.get("handshakes");
    part.executions = part.transitions;
    part.distinct_nontrivial = seen.len() as u64;
    if capped {
        part.exhaustive = false;
        part.caps_hit.push("closure stopped by the wall cap or by too many violations; explored edges were all checked".into());
    }
    part.sample(json!({"start_configurations": starts.len(), "configurations_in_closure": seen.len(), "longest_path": max_path}));
    Closure { part, found }
}

pub fn add_found(part: &mut Part, cfg: &Cfg, b: &Bounds, found: Vec<Found>) {
    // shortest histories first
    let mut found = found;
    found.sort_by_key(|f| (f.history.len(), f.signature.clone()));
    for f in found {
        part.violation(f.property, format!("{} [after {} actions]", f.what, f.history.len()), f.signature, replay_json(cfg, b, &f.history));
    }
}

pub fn wall(started: Instant, secs: u64) -> Instant {
    started + Duration::from_secs(secs)
}

// ------------------------------------------------------------------ configurations per tier

use crate::report::Tier;

#[allow(clippy::too_many_arguments)]
fn mk(name: &str, hs_mode: bool, writers: &[u8], calls: &[Call], nkeys: u8, vals: &[u8], v: [u8; 7], max_states: usize) -> Bounds {
    Bounds {
        name: format!("{name}(w{},s{},d{},g{},t{},h{},r{})", v[0], v[1], v[2], v[3], v[4], v[5], v[6]),
        hs_mode,
        writers: writers.to_vec(),
        calls: calls.to_vec(),
        nkeys,
        vals: vals.to_vec(),
        writes: v[0],
        syns: v[1],
        dups: v[2],
        gcs: v[3],
        ticks: v[4],
        handshakes: v[5],
        restarts: v[6],
        max_states,
    }
}

pub struct Plan {
    pub cfg: Arc<Cfg>,
    pub bounds: Bounds,
    /// wall-clock allowance in seconds
    pub secs: u64,
    /// deterministic prefix executed before the exploration starts
    pub prefix: Vec<Action>,
}

fn w(call: Call, key: u8, val: u8) -> Action {
    Action::Write { node: 0, call, key, val }
}
fn wn(node: u8, call: Call, key: u8, val: u8) -> Action {
    Action::Write { node, call, key, val }
}
fn hs(from: u8, to: u8) -> Action {
    Action::Handshake { from, to, choices: vec![] }
}

/// Non-initial roots for the 40 KB-value world (node 0 is the owner, val 3 is a 40 KB value).
pub fn big_root(name: &str) -> Vec<Action> {
    match name {
        // the owner holds two 40 KB values and a tombstone on top; node 1 is fully caught up
        "synced-with-top-tombstone" => vec![w(Call::Set, 0, 3), w(Call::Set, 1, 3), w(Call::Set, 2, 1), w(Call::Delete, 2, 0), hs(0, 1), hs(0, 1)],
        // same, and the owner has collected the tombstone (its watermark equals node 1's max version)
        "owner-collected-top-tombstone" => vec![w(Call::Set, 0, 3), w(Call::Set, 1, 3), w(Call::Set, 2, 1), w(Call::Delete, 2, 0), hs(0, 1), hs(0, 1), Action::Tick, Action::Gc { node: 0 }],
        // three parties: node 1 follows the owner closely, node 2 is one deletion and one write behind
        // (owner: a, b 40 KB each, c deleted at v4, d at v5; node 1 at v5; node 2 at v3)
        "stale-peer-behind-a-deletion" => vec![
            w(Call::Set, 0, 3),
            w(Call::Set, 1, 3),
            w(Call::Set, 2, 1),
            hs(0, 1),
            hs(0, 1),
            hs(0, 2),
            hs(0, 2),
            w(Call::Delete, 2, 0),
            w(Call::Set, 3, 1),
            hs(0, 1),
        ],
        // small values, two owners whose top versions were deleted and collected (node 0 ends at (4,4)
        // with a@1 left, node 1 at (3,3) with a@1 left); they know each other's state; node 2 has
        // just been reset for both and sits behind both watermarks ((4,1) and (3,1)): the next delta
        // for node 2 carries two known members that both need nothing but a max-version update
        "two-owners-collected" => vec![
            w(Call::Set, 0, 1),
            w(Call::Set, 1, 1),
            w(Call::Set, 1, 2),
            w(Call::Delete, 1, 0),
            wn(1, Call::Set, 0, 1),
            wn(1, Call::Set, 1, 1),
            wn(1, Call::Delete, 1, 0),
            Action::Tick,
            Action::Gc { node: 0 },
            Action::Gc { node: 1 },
            hs(0, 1),
            hs(0, 1),
            hs(2, 0),
        ],
        // node 1 holds a truncated copy (first 40 KB value only)
        "truncated-copy" => vec![w(Call::Set, 0, 3), w(Call::Set, 1, 3), w(Call::Set, 2, 1), hs(0, 1)],
        _ => vec![],
    }
}

/// Budget vectors are [writes, syn initiations, duplicate deliveries, gc passes, ticks, handshakes, restarts].
pub fn plans(props: &[&'static str], tier: Tier) -> Vec<Plan> {
    let all = Call::all();
    let three = [Call::Set, Call::Delete, Call::SetTtl];
    let small3 = || Arc::new(Cfg::simple(3, false, props));
    let small2 = || Arc::new(Cfg::simple(2, false, props));
    let small4 = || Arc::new(Cfg::simple(4, false, props));
    let big3 = || Arc::new(Cfg::simple(3, true, props));
    let big2 = || Arc::new(Cfg::simple(2, true, props));
    let small3_mapped = || {
        let mut c = Cfg::simple(3, false, props);
        c.mapped_addr_nodes = vec![0];
        Arc::new(c)
    };
    let small3_twins = || {
        let mut c = Cfg::simple(3, false, props);
        c.same_node_id_as_0 = vec![1];
        Arc::new(c)
    };
    let cap = tier.pick(2_000_000, 5_000_000);
    let p = |cfg: Arc<Cfg>, bounds: Bounds, secs: u64| Plan { cfg, bounds, secs, prefix: vec![] };
    let pr = |cfg: Arc<Cfg>, bounds: Bounds, secs: u64, root: &str| Plan { cfg, bounds: Bounds { name: format!("{}@{}", bounds.name, root), ..bounds }, secs, prefix: big_root(root) };
    match tier {
        Tier::Quick => vec![
            p(small3(), mk("msg-3nodes-1writer", false, &[0], &all, 2, &[1, 2], [2, 2, 0, 1, 1, 0, 0], cap), 8),
            p(small3(), mk("msg-3nodes-1writer", false, &[0], &all, 2, &[1, 2], [2, 2, 1, 0, 0, 0, 0], cap), 10),
            p(small2(), mk("msg-2nodes-2writers", false, &[0, 1], &all, 2, &[1, 2], [2, 2, 0, 1, 1, 0, 0], cap), 6),
            p(small2(), mk("msg-2nodes-2writers", false, &[0, 1], &all, 2, &[1, 2], [2, 2, 1, 1, 0, 0, 0], cap), 10),
            p(big3(), mk("hs-3nodes-big-values", true, &[0], &three, 3, &[1, 3], [2, 0, 0, 1, 1, 4, 0], cap), 8),
            p(big3(), mk("hs-3nodes-big-values", true, &[0], &three, 3, &[1, 3], [3, 0, 0, 0, 0, 4, 0], cap), 10),
            p(big3(), mk("hs-3nodes-big-values-2writers", true, &[0, 1], &[Call::Set, Call::Delete], 2, &[3], [3, 0, 0, 0, 0, 3, 0], cap), 8),
            p(small3(), mk("hs-3nodes-small-values", true, &[0], &all, 3, &[1, 2], [3, 0, 0, 2, 1, 4, 0], cap), 15),
            pr(big3(), mk("hs-3nodes-big-values", true, &[0], &three, 3, &[1, 3], [1, 0, 0, 1, 1, 2, 0], cap), 8, "owner-collected-top-tombstone"),
            pr(big3(), mk("hs-3nodes-big-values", true, &[0], &three, 3, &[1, 3], [1, 0, 0, 1, 1, 3, 0], cap), 8, "truncated-copy"),
            pr(big3(), mk("msg-3nodes-big-values", false, &[0], &three, 4, &[1, 3], [0, 2, 0, 1, 1, 0, 0], cap), 12, "stale-peer-behind-a-deletion"),
            p(small2(), mk("hs-2nodes-restart", true, &[0], &[Call::Set, Call::Delete], 2, &[1], [2, 0, 0, 0, 0, 3, 1], cap), 8),
            p(small3_mapped(), mk("hs-3nodes-owner-on-ipv4-mapped-address", true, &[0], &[Call::Set, Call::Delete], 2, &[1], [2, 0, 0, 0, 0, 3, 0], cap), 8),
            pr(small3(), mk("hs-3nodes-small-values-2writers", true, &[0, 1], &[Call::Set, Call::Delete], 2, &[1], [1, 0, 0, 0, 0, 3, 0], cap), 6, "two-owners-collected"),
            p(small3_twins(), mk("hs-3nodes-two-members-differing-by-address-only", true, &[0, 1], &[Call::Set, Call::Delete], 2, &[1], [2, 0, 0, 0, 0, 3, 0], cap), 6),
        ],
        Tier::Thorough => vec![
            // message granularity
            p(small3(), mk("msg-3nodes-1writer", false, &[0], &all, 2, &[1, 2], [2, 2, 1, 1, 1, 0, 0], cap), 150),
            p(small3(), mk("msg-3nodes-1writer", false, &[0], &all, 2, &[1, 2], [3, 2, 0, 1, 1, 0, 0], cap), 200),
            p(small3(), mk("msg-3nodes-1writer", false, &[0], &all, 2, &[1, 2], [2, 3, 0, 1, 1, 0, 0], cap), 240),
            p(small3(), mk("msg-3nodes-1writer-restart", false, &[0], &three, 2, &[1, 2], [2, 2, 0, 1, 1, 0, 1], cap), 200),
            p(small2(), mk("msg-2nodes-2writers", false, &[0, 1], &all, 2, &[1, 2], [3, 2, 1, 1, 1, 0, 0], cap), 200),
            p(small2(), mk("msg-2nodes-2writers", false, &[0, 1], &three, 2, &[1, 2], [2, 3, 1, 2, 1, 0, 0], cap), 240),
            p(big2(), mk("msg-2nodes-big-values", false, &[0], &three, 3, &[1, 3], [3, 2, 1, 1, 1, 0, 0], cap), 200),
            // handshake granularity, 40 KB values
            p(big3(), mk("hs-3nodes-big-values", true, &[0], &three, 3, &[1, 3], [3, 0, 0, 1, 1, 4, 0], cap), 200),
            p(big3(), mk("hs-3nodes-big-values", true, &[0], &three, 3, &[1, 3, 4], [3, 0, 0, 2, 1, 5, 0], cap), 300),
            p(big3(), mk("hs-3nodes-big-values-2writers", true, &[0, 1], &three, 2, &[1, 3], [3, 0, 0, 1, 1, 4, 0], cap), 240),
            pr(big3(), mk("hs-3nodes-big-values", true, &[0], &three, 3, &[1, 3], [2, 0, 0, 1, 1, 4, 0], cap), 240, "synced-with-top-tombstone"),
            pr(big3(), mk("hs-3nodes-big-values", true, &[0], &three, 3, &[1, 3], [2, 0, 0, 1, 1, 4, 0], cap), 240, "owner-collected-top-tombstone"),
            pr(big3(), mk("hs-3nodes-big-values", true, &[0], &three, 3, &[1, 3], [2, 0, 0, 2, 1, 4, 0], cap), 240, "truncated-copy"),
            pr(big3(), mk("msg-3nodes-big-values", false, &[0], &three, 4, &[1, 3], [1, 2, 1, 1, 1, 0, 0], cap), 300, "stale-peer-behind-a-deletion"),
            p(small3(), mk("hs-3nodes-restart", true, &[0], &three, 2, &[1, 2], [3, 0, 0, 1, 1, 4, 1], cap), 240),
            p(small3_mapped(), mk("hs-3nodes-owner-on-ipv4-mapped-address", true, &[0], &three, 2, &[1, 2], [3, 0, 0, 1, 1, 4, 0], cap), 200),
            // handshake granularity, small values
            p(small3(), mk("hs-3nodes-small-values", true, &[0], &all, 3, &[1, 2], [4, 0, 0, 2, 1, 5, 0], cap), 300),
            p(small3(), mk("hs-3nodes-small-values-2writers", true, &[0, 1], &all, 2, &[1, 2], [4, 0, 0, 2, 1, 5, 0], cap), 300),
            p(small4(), mk("hs-4nodes-small-values", true, &[0], &all, 3, &[1, 2], [3, 0, 0, 1, 1, 5, 0], cap), 300),
            pr(small3(), mk("hs-3nodes-small-values-2writers", true, &[0, 1], &three, 2, &[1, 2], [2, 0, 0, 1, 1, 4, 0], cap), 200, "two-owners-collected"),
            p(small3_twins(), mk("hs-3nodes-two-members-differing-by-address-only", true, &[0, 1], &three, 2, &[1, 2], [3, 0, 0, 1, 1, 4, 0], cap), 200),
        ],
    }
}

/// Runs the cluster explorations for one property.
pub fn run(property: &'static str, tier: Tier) -> Vec<Part> {
    let mut parts = vec![];
    let props: Vec<&'static str> = vec![property];
    let kf = replay_known_findings(property);
    if kf.states > 0 {
        parts.push(kf);
    }
    for (pi, plan) in plans(&props, tier).into_iter().enumerate() {
        // C01 adds a closure per plan: in the quick tier it runs on a subset of the plans
        if property == "C01" && tier == Tier::Quick && [1usize, 3, 5, 6].contains(&pi) {
            continue;
        }
        if property == "C01" && tier == Tier::Thorough && [2usize, 3, 5, 6].contains(&pi) {
            continue;
        }
        let t0 = Instant::now();
        // C01 adds a closure per plan: in the thorough tier the exploration gets half of the plan's
        // budget and the closure a third, which keeps the whole check around 1.5 h
        let explore_secs = if property == "C01" && tier == Tier::Thorough { (plan.secs / 2).max(30) } else { plan.secs };
        let ex = explore_from(&plan.cfg, &plan.bounds, &plan.prefix, wall(t0, explore_secs), property == "C01");
        let mut part = ex.part;
        add_found(&mut part, &plan.cfg, &plan.bounds, ex.found);
        parts.push(part);
        if property == "C01" {
            let group: Vec<u8> = (0..plan.cfg.n as u8).collect();
                        let closure_secs = if tier == Tier::Thorough { (plan.secs / 3).max(30) } else { plan.secs };
            let cl = closure(&plan.cfg, &plan.bounds, &ex.configs, &group, wall(Instant::now(), closure_secs));
            let mut cpart = cl.part;
            add_found(&mut cpart, &plan.cfg, &plan.bounds, cl.found);
            parts.push(cpart);
        }
    }
    parts
}

/// C07 / C08 on traffic: every message emitted in a few small explorations is checked (size and
/// delta content against the sender's state; announced length, independent decoder, round trip).
pub fn run_traffic(property: &'static str, tier: Tier) -> Vec<Part> {
    let props: Vec<&'static str> = vec![property];
    let mut parts = vec![];
    let all = plans(&props, tier);
    // the handshake-granularity plans (small values, 40 KB values incl. non-initial roots) and one message-granularity plan
    let pick: Vec<usize> = match tier {
        Tier::Quick => vec![0, 4, 6, 7, 8, 9],
        Tier::Thorough => vec![0, 4, 6, 7, 8, 9, 10, 11, 12, 13, 14],
    };
    for (i, plan) in all.into_iter().enumerate() {
        if !pick.contains(&i) {
            continue;
        }
        let ex = explore_from(&plan.cfg, &plan.bounds, &plan.prefix, wall(Instant::now(), plan.secs.min(tier.pick(8, 300))), false);
        let mut part = ex.part;
        part.name = format!("traffic:{}", part.name);
        add_found(&mut part, &plan.cfg, &plan.bounds, ex.found);
        part.distinct_nontrivial = part.tally.get("c07_messages_checked").max(part.tally.get("c08_messages_checked"));
        parts.push(part);
    }
    parts
}

/// Re-executes the committed replay files of known findings for `property` (they may lie beyond
/// the quick budgets). Violations they still produce are reported with their cause signature.
pub fn replay_known_findings(property: &'static str) -> Part {
    let mut part = Part::new("cluster/known-finding-replays");
    part.rule = "committed replay files under findings/ re-executed step by step on the real code".into();
    let dir = crate::report::verif_dir().join("findings");
    let mut n = 0;
    if let Ok(rd) = std::fs::read_dir(&dir) {
        let mut files: Vec<_> = rd.flatten().map(|e| e.path()).collect();
        files.sort();
        for f in files {
            let Ok(s) = std::fs::read_to_string(&f) else { continue };
            let Ok(v) = serde_json::from_str::<Value>(&s) else { continue };
            if v["engine"].as_str() != Some("cluster") || v["property"].as_str() != Some(property) {
                continue;
            }
            let nn = v["config"]["nodes"].as_u64().unwrap_or(3) as usize;
            let big = v["config"]["big_values"].as_bool().unwrap_or(false);
            let cfg = Arc::new(Cfg::simple(nn, big, &[property]));
            let actions: Vec<Action> = v["actions"].as_array().map(|a| a.iter().filter_map(|x| Action::from_json(x, &cfg)).collect()).unwrap_or_default();
            let mut w = World::new(cfg.clone());
            n += 1;
            for (i, a) in actions.iter().enumerate() {
                let out = w.apply(a, true);
                part.transitions += 1;
                for (p, what, sig) in out.violations {
                    if p == property {
                        part.violation(p, format!("{what} [replay of {} step {}]", f.file_name().unwrap().to_string_lossy(), i + 1), sig, v.clone());
                    }
                }
            }
            part.sample(json!({"replayed": f.file_name().unwrap().to_string_lossy(), "actions": actions.len()}));
        }
    }
    part.states = n;
    part.executions = n;
    part.distinct_nontrivial = n;
    part
}

pub fn replay_file(v: &Value) -> Result<(), String> {
    let n = v["config"]["nodes"].as_u64().unwrap_or(3) as usize;
    let big = v["config"]["big_values"].as_bool().unwrap_or(false);
    let all: Vec<&'static str> = vec!["C01", "C02", "C03", "C04", "C05", "C07", "C08", "C20"];
    let mut cfg = Cfg::simple(n, big, &all);
    let idx = |k: &str| -> Vec<usize> { v["config"][k].as_array().map(|a| a.iter().filter_map(|x| x.as_u64().map(|y| y as usize)).collect()).unwrap_or_default() };
    cfg.mapped_addr_nodes = idx("mapped_addr_nodes");
    cfg.same_node_id_as_0 = idx("same_node_id_as_0");
    let cfg = Arc::new(cfg);
    let actions: Vec<Action> = v["actions"].as_array().ok_or("no actions")?.iter().filter_map(|a| Action::from_json(a, &cfg)).collect();
    let mut w = World::new(cfg.clone());
    let mut bad = None;
    for (i, a) in actions.iter().enumerate() {
        let out = w.apply(a, true);
        println!("step {} {}", i + 1, a.to_json(&cfg));
        println!("   {}", w.describe());
        for (p, what, sig) in &out.violations {
            println!("   !! {p} [{sig}] {what}");
            if bad.is_none() {
                bad = Some(format!("{p} {what}"));
            }
        }
    }
    match bad {
        Some(b) => Err(b),
        None => Ok(()),
    }
}

pub fn run_plan(plan: &str, property: &'static str, tier: Tier, secs: u64) -> Vec<Part> {
    let props = vec![property];
    let all = Call::all();
    let three = [Call::Set, Call::Delete, Call::SetTtl];
    let v: Vec<u8> = std::env::var("CCMC_B").unwrap_or("2,2,1,1,1,0,0".into()).split(',').filter_map(|x| x.parse().ok()).collect();
    let mut bv = [0u8; 7];
    for (i, x) in v.iter().enumerate().take(7) {
        bv[i] = *x;
    }
    let cap = tier.pick(3_000_000, 8_000_000);
    let (cfg, b) = match plan {
        "msg3" => (Arc::new(Cfg::simple(3, false, &props)), mk("msg3", false, &[0], &all, 2, &[1, 2], bv, cap)),
        "msg2" => (Arc::new(Cfg::simple(2, false, &props)), mk("msg2", false, &[0, 1], &all, 2, &[1, 2], bv, cap)),
        "hs3s" => (Arc::new(Cfg::simple(3, false, &props)), mk("hs3s", true, &[0], &all, 3, &[1, 2], bv, cap)),
        "hs4s" => (Arc::new(Cfg::simple(4, false, &props)), mk("hs4s", true, &[0], &all, 3, &[1, 2], bv, cap)),
        _ => (Arc::new(Cfg::simple(3, true, &props)), mk("hs3", true, &[0], &three, 3, &[1, 3], bv, cap)),
    };
    let started = Instant::now();
    let ex = explore(&cfg, &b, wall(started, secs), property == "C01");
    let mut part = ex.part;
    add_found(&mut part, &cfg, &b, ex.found);
    let mut parts = vec![part];
    if property == "C01" {
        let group: Vec<u8> = (0..cfg.n as u8).collect();
        let cl = closure(&cfg, &b, &ex.configs, &group, wall(Instant::now(), secs));
        let mut cpart = cl.part;
        add_found(&mut cpart, &cfg, &b, cl.found);
        parts.push(cpart);
    }
    parts
}

/// Debug aid: replays a history and reports, for every step, whether the explorer would have
/// considered that action enabled under the `hs3` experiment bounds (CCMC_B).
pub fn debug_enabled(v: &Value) {
    let props = vec!["C01"];
    let three = [Call::Set, Call::Delete, Call::SetTtl];
    let bvv: Vec<u8> = std::env::var("CCMC_B").unwrap_or("5,0,0,1,1,3,0".into()).split(',').filter_map(|x| x.parse().ok()).collect();
    let mut bv = [0u8; 7];
    for (i, x) in bvv.iter().enumerate().take(7) {
        bv[i] = *x;
    }
    let cfg = Arc::new(Cfg::simple(3, true, &props));
    let b = mk("hs3", true, &[0], &three, 3, &[1, 3], bv, 1_000_000);
    let actions: Vec<Action> = v["actions"].as_array().unwrap().iter().filter_map(|a| Action::from_json(a, &cfg)).collect();
    let mut w = World::new(cfg.clone());
    for a in &actions {
        let en = enabled(&w, &b);
        println!("{} enabled={} (of {})", a.to_json(&cfg), en.contains(a), en.len());
        w.apply(a, false);
    }
}
