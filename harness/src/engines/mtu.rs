//! `mtu` — boundary-directed exhaustive sweeps of reply sizes and delta content (C07).

use std::time::Instant;

use rayon::prelude::*;
use serde_json::{json, Value};

use crate::codec::{self, DigestEntry, Id, Msg, Op};
use crate::node::{Node, NodeOpts};
use crate::real::{self, Meaning};
use crate::report::{Part, Tier};
use crate::util::{guarded, short_loc, text, Content, Tally};

pub struct Viol {
    pub what: String,
    pub sig: String,
    pub replay: Value,
}

fn owner_id() -> Id {
    Id::v4("owner", 1, 10_001)
}
fn peer_id() -> Id {
    Id::v4("peer", 1, 10_002)
}

/// Content clause of C07 for one reply, against the sender's current state.
pub fn check_content(sender: &Node, meaning: &Meaning, viols: &mut Vec<(String, String)>) {
    for md in meaning.members() {
        let rid = real::to_real_id(&md.id);
        let Some(ns) = sender.cc.node_state(&rid) else {
            viols.push((format!("delta mentions a member the sender does not hold: {}", md.id.node_id.len()), "delta-unknown-member".into()));
            continue;
        };
        // delta max version: the last entry's version, or the SetMaxVersion tail, or (header only) nothing
        let dmax = if md.max_version > 0 { md.max_version.max(md.from) } else { md.from };
        let mut expected: Vec<(&str, &chitchat::VersionedValue)> = ns.key_values_including_deleted().filter(|(_, vv)| vv.version > md.from && vv.version <= dmax).collect();
        expected.sort_by_key(|(_, vv)| vv.version);
        let same = expected.len() == md.kvs.len()
            && expected.iter().zip(md.kvs.iter()).all(|((k, vv), (dk, dv, dver, dst))| k == dk && vv.value == *dv && vv.version == *dver && crate::node::status_kind(vv) == *dst);
        if !same {
            viols.push((
                format!(
                    "delta from {} carries versions {:?}; the sender holds versions {:?} in ({}, {}]",
                    md.from,
                    md.kvs.iter().map(|k| k.2).collect::<Vec<_>>(),
                    expected.iter().map(|(_, vv)| vv.version).collect::<Vec<_>>(),
                    md.from,
                    dmax
                ),
                "delta-content".into(),
            ));
        }
        if md.kvs.windows(2).any(|w| w[0].2 >= w[1].2) {
            viols.push(("delta entries are not in ascending version order".into(), "delta-order".into()));
        }
        if md.kvs.iter().any(|k| k.2 <= md.from) {
            viols.push(("delta carries an entry at or below its start version".into(), "delta-below-start".into()));
        }
    }
}

#[derive(Clone, Copy, Debug, PartialEq, Eq)]
pub enum Kind {
    SynAck,
    Ack,
}

/// Makes the owner produce a reply to a peer that knows nothing (or knows the owner up to `floor`).
/// Returns (bytes, meaning, probe included?).
fn reply_of(node: &mut Node, kind: Kind, floor: u64) -> Result<(Vec<u8>, Meaning), String> {
    let me = node.id.clone();
    let mut digest = vec![DigestEntry { id: peer_id(), heartbeat: 1, gc: 0, mv: 0 }];
    if floor > 0 {
        digest.push(DigestEntry { id: me, heartbeat: 1, gc: 0, mv: floor });
    }
    let incoming = match kind {
        Kind::SynAck => Msg::Syn { digest, cluster_id: "c".into() },
        Kind::Ack => Msg::SynAck { digest, ops: vec![] },
    };
    let m = real::build_real(&incoming)?;
    let reply = guarded(|| node.cc.verif_process_message(m))?.ok_or("no reply")?;
    let bytes = guarded(|| real::real_encode(&reply))?;
    Ok((bytes, real::meaning_of_real(&reply)))
}

fn has_key(meaning: &Meaning, key: &str) -> bool {
    meaning.members().iter().any(|m| m.kvs.iter().any(|k| k.0 == key))
}

// ------------------------------------------------------------------ family A: own digest eats the budget

/// Builds a node whose own digest has exactly `digest_len` bytes (owner + 39 members with long ids).
fn node_with_digest_len(digest_len: usize) -> Option<Node> {
    let mut node = Node::new(&owner_id(), &NodeOpts::default());
    let own_entry = codec::id_len(&owner_id()) + 24;
    let peer_entry = codec::id_len(&peer_id()) + 24;
    // 2 bytes count + own entry + the peer's entry (it becomes known with its first SYN) + 39 entries
    let remaining = digest_len.checked_sub(2 + own_entry + peer_entry)?;
    let n = 39usize;
    let per = remaining / n;
    let extra = remaining - per * n;
    // entry = 17 + idlen + 24
    let mut digest = vec![];
    for i in 0..n {
        let entry_len = per + if i == 0 { extra } else { 0 };
        let idlen = entry_len.checked_sub(41)?;
        if idlen > 65_000 || idlen < 4 {
            return None;
        }
        let name = format!("{:03}{}", i, "m".repeat(idlen - 3));
        digest.push(DigestEntry { id: Id::v4(&name, 1, 11_000 + i as u16), heartbeat: 1, gc: 0, mv: 0 });
    }
    digest.push(DigestEntry { id: peer_id(), heartbeat: 1, gc: 0, mv: 0 });
    let m = real::build_real(&Msg::Syn { digest, cluster_id: "c".into() }).ok()?;
    guarded(|| node.cc.verif_process_message(m)).ok()?;
    // measure
    let syn = node.cc.verif_create_syn_message();
    let bytes = guarded(|| real::real_encode(&syn)).ok()?;
    // SYN = 4 + digest + (2 + 1 cluster id)
    let got = bytes.len() - 4 - 3;
    if got != digest_len {
        return None;
    }
    Some(node)
}

pub fn family_a(budgets: std::ops::RangeInclusive<usize>, want_sig: &mut Tally, deadline: Instant) -> (Tally, Vec<Viol>, bool) {
    let bs: Vec<usize> = budgets.collect();
    let capped = std::sync::atomic::AtomicBool::new(false);
    let results: Vec<(Tally, Vec<Viol>)> = bs
        .par_iter()
        .map(|b| {
            let mut t = Tally::default();
            let mut v = vec![];
            if Instant::now() > deadline {
                capped.store(true, std::sync::atomic::Ordering::Relaxed);
                return (t, v);
            }
            // room left for the delta = 65507 - 4 (message header) - own digest
            let Some(mut node) = node_with_digest_len(65_503 - b) else {
                t.inc("digest_size_not_constructible");
                return (t, v);
            };
            for content in [Content::Repeat, Content::Full7, Content::Mixed] {
                for vlen in 0..=(*b + 8) {
                    let val = text(vlen, content, vlen as u64);
                    node.cc.self_node_state().set("p", &val);
                    t.inc("replies");
                    let replay = json!({"engine":"mtu","family":"A","budget_left_by_digest":b,"content":format!("{content:?}"),"value_len":vlen});
                    match reply_of(&mut node, Kind::SynAck, 0) {
                        Ok((bytes, meaning)) => {
                            t.max("max_datagram_len", bytes.len() as u64);
                            if has_key(&meaning, "p") {
                                t.inc("replies_with_probe");
                            } else {
                                t.inc("replies_truncated");
                            }
                            if bytes.len() > codec::MAX_DATAGRAM {
                                v.push(Viol { what: format!("SYN-ACK of {} bytes (own digest leaves {b} bytes, {content:?} value of {vlen} bytes)", bytes.len()), sig: "datagram-too-large".into(), replay: replay.clone() });
                            }
                            let mut cv = vec![];
                            check_content(&node, &meaning, &mut cv);
                            for (w, s) in cv {
                                v.push(Viol { what: w, sig: s, replay: replay.clone() });
                            }
                        }
                        Err(e) => v.push(Viol { what: format!("no reply: {e}"), sig: format!("panic:{}", short_loc(&e)), replay }),
                    }
                    if v.len() > 10 {
                        return (t, v);
                    }
                }
            }
            (t, v)
        })
        .collect();
    let mut tally = Tally::default();
    let mut viols = vec![];
    for (t, v) in results {
        tally.merge(&t);
        viols.extend(v);
    }
    let _ = want_sig;
    (tally, viols, capped.load(std::sync::atomic::Ordering::Relaxed))
}

// ------------------------------------------------------------------ family B: big state, tiny digest

#[derive(Clone, Debug)]
pub struct BCase {
    pub content: Content,
    pub kind: Kind,
    /// filler value lengths (keys are f000, f001, ...)
    pub fillers: Vec<usize>,
    /// content class per filler (defaults to `content` when shorter than `fillers`)
    pub filler_contents: Vec<Content>,
    pub floor: u64,
}

impl BCase {
    fn filler_content(&self, i: usize) -> Content {
        self.filler_contents.get(i).copied().unwrap_or(self.content)
    }
}

fn build_b(case: &BCase) -> Node {
    let mut node = Node::new(&owner_id(), &NodeOpts::default());
    for (i, l) in case.fillers.iter().enumerate() {
        node.cc.self_node_state().set(key_of(i), text(*l, case.filler_content(i), i as u64 + 1));
    }
    node
}

fn key_of(i: usize) -> String {
    format!("f{i:03}")
}

/// Builds the owner with the fillers, then finds by bisection the largest probe value length that
/// still gets the probe into the reply, and sweeps a window around it.
fn run_b(case: &BCase, window_below: usize, window_above: usize, t: &mut Tally, v: &mut Vec<Viol>) {
    let mut node = build_b(case);
    let replay_of = |vlen: usize| json!({"engine":"mtu","family":"B","content":format!("{:?}", case.content),"kind":format!("{:?}", case.kind),"fillers":case.fillers,"filler_contents":case.filler_contents.iter().map(|c| format!("{c:?}")).collect::<Vec<_>>(),"floor":case.floor,"probe_value_len":vlen});
    let probe = |node: &mut Node, vlen: usize, t: &mut Tally, v: &mut Vec<Viol>| -> Option<bool> {
        // the probe always gets the highest version: re-set through a different value first
        let val = text(vlen, case.content, 77 + vlen as u64);
        node.cc.self_node_state().set("zprobe", "");
        node.cc.self_node_state().set("zprobe", "x");
        node.cc.self_node_state().set("zprobe", &val);
        t.inc("replies");
        match reply_of(node, case.kind, case.floor) {
            Ok((bytes, meaning)) => {
                t.max("max_datagram_len", bytes.len() as u64);
                if bytes.len() > codec::MAX_DATAGRAM {
                    v.push(Viol { what: format!("{:?} of {} bytes ({:?} content, fillers {:?}, probe value {vlen} bytes)", case.kind, bytes.len(), case.content, case.fillers), sig: "datagram-too-large".into(), replay: replay_of(vlen) });
                }
                let mut cv = vec![];
                check_content(node, &meaning, &mut cv);
                for (w, s) in cv {
                    v.push(Viol { what: w, sig: s, replay: replay_of(vlen) });
                }
                if let Ok(d) = codec::decode(&bytes) {
                    if d.blocks.raw > 0 {
                        t.inc("replies_with_raw_block");
                    }
                    if d.blocks.raw + d.blocks.compressed > 1 {
                        t.inc("replies_with_several_blocks");
                    }
                }
                let inc = has_key(&meaning, "zprobe");
                if inc {
                    t.inc("replies_with_probe");
                } else {
                    t.inc("replies_truncated");
                }
                Some(inc)
            }
            Err(e) => {
                v.push(Viol { what: format!("no reply: {e}"), sig: format!("panic:{}", short_loc(&e)), replay: replay_of(vlen) });
                None
            }
        }
    };
    // bisection on the probe length (inclusion is monotone in the length)
    let Some(fits0) = probe(&mut node, 0, t, v) else { return };
    if !fits0 {
        t.inc("cases_where_even_an_empty_probe_is_cut");
        return;
    }
    let mut lo = 0usize; // fits
    let mut hi = 65_000usize; // assume not
    match probe(&mut node, hi, t, v) {
        Some(true) => {
            t.inc("cases_where_everything_fits");
            return;
        }
        Some(false) => {}
        None => return,
    }
    while hi - lo > 1 {
        let mid = (lo + hi) / 2;
        match probe(&mut node, mid, t, v) {
            Some(true) => lo = mid,
            Some(false) => hi = mid,
            None => return,
        }
    }
    t.inc("thresholds_found");
    let start = lo.saturating_sub(window_below);
    for vlen in start..=(lo + window_above).min(65_000) {
        let inc = probe(&mut node, vlen, t, v);
        if let Some(inc) = inc {
            if inc != (vlen <= lo) {
                t.inc("non_monotone_inclusion");
            }
        }
        if v.len() > 10 {
            return;
        }
    }
}

/// Filler plans that put the raw op stream at chosen offsets around block boundaries.
fn b_cases(tier: Tier) -> Vec<BCase> {
    let mut out = vec![];
    // raw op length of a filler = 1 + 2 + 4 + 2 + L + 8 + 1 = 18 + L ; member header of "owner" id:
    let header = codec::op_len(&Op::Node { id: owner_id(), gc: 0, from: 0 });
    let contents = [Content::Repeat, Content::Full7, Content::Mixed];
    let deltas: Vec<i64> = if tier == Tier::Quick { vec![-1, 0, 1] } else { vec![-3, -2, -1, 0, 1, 2, 3] };
    for content in contents {
        for kind in [Kind::SynAck, Kind::Ack] {
            // no filler at all; a handful of small ones
            out.push(BCase { content, kind, fillers: vec![], filler_contents: vec![], floor: 0 });
            out.push(BCase { content, kind, fillers: vec![10, 20, 30], filler_contents: vec![], floor: 0 });
            out.push(BCase { content, kind, fillers: vec![10, 20, 30], filler_contents: vec![], floor: 2 });
            // streams ending `d` bytes away from the k-th block boundary before the probe
            for k in 1..=(if content == Content::Repeat { 6 } else { 3 }) {
                for d in &deltas {
                    let target = (16_384i64 * k as i64 + d) as usize;
                    // one big filler, or several equal ones
                    for n in [1usize, 3, if tier == Tier::Quick { 3 } else { 40 }] {
                        let body = target - header;
                        let per = body / n;
                        if per < 19 {
                            continue;
                        }
                        let mut fillers = vec![per - 18; n];
                        fillers[0] += body - per * n;
                        if fillers.iter().any(|l| *l > 65_000) {
                            continue;
                        }
                        out.push(BCase { content, kind, fillers, filler_contents: vec![], floor: 0 });
                    }
                }
            }
            // leave only a small remaining budget: fillers whose raw size is close to what fits
            for small in [30usize, 60, 120] {
                let per_block_gain = match content {
                    Content::Repeat => continue,
                    Content::Full7 | Content::Ascii7 => 0.875,
                    Content::Mixed => 0.955,
                };
                let raw_total = ((65_400.0 - small as f64) / per_block_gain) as usize;
                let n = 4;
                let per = raw_total / n;
                out.push(BCase { content, kind, fillers: vec![per - 18; n], filler_contents: vec![], floor: 0 });
            }
        }
    }
    if tier == Tier::Thorough {
        // 300 keys of 65,000 compressible bytes: the largest state of the quantifier
        out.push(BCase { content: Content::Repeat, kind: Kind::SynAck, fillers: vec![65_000; 300], filler_contents: vec![], floor: 0 });
        out.push(BCase { content: Content::Full7, kind: Kind::Ack, fillers: vec![200; 300], filler_contents: vec![], floor: 0 });
        out.push(BCase { content: Content::Mixed, kind: Kind::SynAck, fillers: vec![215; 300], filler_contents: vec![], floor: 150 });
    }
    out
}

/// Cases tuned so that the compressed stream almost exhausts the budget while the last block is
/// tiny (hence stored raw): four blocks of near-incompressible text eat most of the budget, then
/// whole blocks of a repeated character (a few dozen bytes each once compressed) are added until a
/// 60-byte probe stops fitting; the op stream before the probe ends `d` bytes past a block boundary.
fn tuned_cases(tier: Tier) -> Vec<BCase> {
    let header = codec::op_len(&Op::Node { id: owner_id(), gc: 0, from: 0 });
    let mut out = vec![];
    let ds: Vec<usize> = if tier == Tier::Quick { vec![1, 9] } else { vec![0, 1, 2, 3, 5, 9, 30, 200] };
    for kind in [Kind::SynAck, Kind::Ack] {
        for &d in &ds {
            // raw position after header + 4 mixed fillers of 16,000 bytes
            let mixed = vec![16_000usize; 4];
            let pos0 = header + mixed.iter().map(|l| 18 + l).sum::<usize>();
            // repeat fillers: whole entries of 65,000 then one aligning entry
            let fits = |blocks: usize| -> Option<(bool, BCase)> {
                // total raw after the mixed part: blocks*16384 + pad so that the end is d past a boundary
                let end = ((pos0 / 16_384) + 1 + blocks) * 16_384 + d;
                let mut need = end - pos0;
                let mut fillers = mixed.clone();
                let mut contents = vec![Content::Mixed; 4];
                while need > 65_018 + 19 {
                    fillers.push(65_000);
                    contents.push(Content::Repeat);
                    need -= 65_018;
                }
                if need < 19 {
                    return None;
                }
                fillers.push(need - 18);
                contents.push(Content::Repeat);
                let case = BCase { content: Content::Full7, kind, fillers, filler_contents: contents, floor: 0 };
                let mut node = build_b(&case);
                node.cc.self_node_state().set("zprobe", text(60, Content::Full7, 1));
                let (_, meaning) = reply_of(&mut node, kind, 0).ok()?;
                Some((has_key(&meaning, "zprobe"), case))
            };
            // largest number of repeat blocks with which the 60-byte probe still fits
            let (mut lo, mut hi) = (0usize, 600usize);
            let Some((true, mut best)) = fits(lo) else { continue };
            if let Some((true, _)) = fits(hi) {
                continue;
            }
            while hi - lo > 1 {
                let mid = (lo + hi) / 2;
                match fits(mid) {
                    Some((true, c)) => {
                        lo = mid;
                        best = c;
                    }
                    _ => hi = mid,
                }
            }
            out.push(best);
        }
    }
    out
}

// ------------------------------------------------------------------ family D: every budget, several members

/// A node holding copies of three members with small entries answers digests with different
/// floors under every budget from 100 to "everything fits".
fn family_d(tier: Tier, deadline: Instant) -> (Tally, Vec<Viol>, bool) {
    let members: Vec<Id> = vec![Id::v4("ma", 1, 12_001), Id::v4(&"b".repeat(40), 2, 12_002), Id::v4("mc", 3, 12_003)];
    let build = || -> Node {
        let mut node = Node::new(&owner_id(), &NodeOpts::default());
        let digest: Vec<DigestEntry> = members.iter().map(|id| DigestEntry { id: id.clone(), heartbeat: 1, gc: 0, mv: 0 }).collect();
        node.cc.verif_process_message(real::build_real(&Msg::Syn { digest, cluster_id: "c".into() }).unwrap());
        // ma: (gc 0, mv 6) six entries, mixed statuses ; b..: (gc 4, mv 9) after reset, three entries ; mc: (0, 5) empty + SetMax
        let kv = |k: &str, len: usize, ver: u64, st: u8| Op::Kv { key: k.into(), value: if st == 1 { String::new() } else { text(len, Content::Full7, ver) }, version: ver, status: st };
        let ops = vec![
            Op::Node { id: members[0].clone(), gc: 0, from: 0 },
            kv("a1", 30, 1, 0),
            kv("a2", 0, 2, 1),
            kv("a3", 120, 3, 2),
            kv("a4", 7, 4, 0),
            kv("a5", 300, 5, 0),
            kv("a6", 1, 6, 2),
            Op::Node { id: members[1].clone(), gc: 4, from: 0 },
            kv("b1", 50, 2, 0),
            kv("b2", 80, 7, 0),
            kv("b3", 0, 9, 1),
            Op::Node { id: members[2].clone(), gc: 0, from: 0 },
            Op::SetMax(5),
        ];
        node.cc.verif_process_message(real::build_real(&Msg::Ack { ops }).unwrap());
        node.cc.self_node_state().set("own1", text(40, Content::Full7, 1));
        node.cc.self_node_state().set("own2", text(90, Content::Mixed, 2));
        node
    };
    // peer digests: floors per member
    let floors: Vec<[(u64, u64); 3]> = if tier == Tier::Quick {
        vec![[(0, 0), (0, 0), (0, 0)], [(0, 3), (4, 7), (0, 5)], [(0, 6), (0, 2), (0, 0)], [(0, 5), (5, 0), (0, 4)]]
    } else {
        let mut f = vec![];
        for a in [0u64, 2, 3, 5, 6] {
            for b in [(0u64, 0u64), (0, 2), (4, 2), (4, 7), (5, 0), (0, 9)] {
                for c in [0u64, 4, 5] {
                    f.push([(0, a), b, (0, c)]);
                }
            }
        }
        f
    };
    let capped = std::sync::atomic::AtomicBool::new(false);
    let results: Vec<(Tally, Vec<Viol>)> = floors
        .par_iter()
        .map(|fl| {
            let mut t = Tally::default();
            let mut v = vec![];
            let node = build();
            let digest: Vec<DigestEntry> = members.iter().zip(fl.iter()).map(|(id, (gc, mv))| DigestEntry { id: id.clone(), heartbeat: 1, gc: *gc, mv: *mv }).collect();
            let syn = real::build_real(&Msg::Syn { digest, cluster_id: "c".into() }).unwrap();
            let mut distinct: std::collections::BTreeSet<usize> = Default::default();
            let mut full_ops = None;
            for budget in (100..=2_200usize).rev() {
                if Instant::now() > deadline {
                    capped.store(true, std::sync::atomic::Ordering::Relaxed);
                    break;
                }
                t.inc("replies");
                let replay = json!({"engine":"mtu","family":"D","floors":fl.iter().map(|x| json!([x.0,x.1])).collect::<Vec<_>>(),"budget":budget});
                // every equal-staleness order is enumerated through the scripted shuffle
                let mut scripts: Vec<Vec<usize>> = vec![vec![]];
                while let Some(script) = scripts.pop() {
                    chitchat::verif::arm_choices(script.clone());
                    let r = guarded(|| node.cc.verif_compute_delta(&syn, budget));
                    let log = chitchat::verif::disarm_choices();
                    for p in script.len()..log.len() {
                        for alt in 1..log[p].arity {
                            let mut s2: Vec<usize> = log[..p].iter().map(|c| c.chosen).collect();
                            s2.push(alt);
                            scripts.push(s2);
                        }
                    }
                    let m = match r {
                        Ok(Some(m)) => m,
                        Ok(None) => continue,
                        Err(p) => {
                            v.push(Viol { what: format!("panic computing a delta under budget {budget}: {p}"), sig: format!("panic:{}", short_loc(&p)), replay: replay.clone() });
                            continue;
                        }
                    };
                    t.inc("deltas");
                    let bytes = match guarded(|| real::real_encode(&m)) {
                        Ok(b) => b,
                        Err(p) => {
                            v.push(Viol { what: format!("the delta computed under budget {budget} cannot be serialized (the sender panics): {p}"), sig: format!("panic:{}", short_loc(&p)), replay: replay.clone() });
                            continue;
                        }
                    };
                    let stream_len = bytes.len() - 4;
                    if stream_len > budget {
                        v.push(Viol { what: format!("delta stream of {stream_len} bytes under a budget of {budget}"), sig: "stream-exceeds-budget".into(), replay: replay.clone() });
                    }
                    let meaning = real::meaning_of_real(&m);
                    let nops: usize = meaning.members().iter().map(|md| 1 + md.kvs.len() + usize::from(md.kvs.is_empty() && md.max_version > 0)).sum();
                    distinct.insert(nops);
                    if full_ops.is_none() {
                        full_ops = Some(nops);
                    }
                    let mut cv = vec![];
                    check_content(&node, &meaning, &mut cv);
                    for (w, s) in cv {
                        v.push(Viol { what: format!("budget {budget}: {w}"), sig: s, replay: replay.clone() });
                    }
                }
                if v.len() > 10 {
                    break;
                }
            }
            t.add("distinct_truncation_points", distinct.len() as u64);
            (t, v)
        })
        .collect();
    let mut tally = Tally::default();
    let mut viols = vec![];
    for (t, v) in results {
        tally.merge(&t);
        viols.extend(v);
    }
    (tally, viols, capped.load(std::sync::atomic::Ordering::Relaxed))
}

fn push(part: &mut Part, viols: Vec<Viol>) {
    let mut viols = viols;
    viols.sort_by_key(|v| v.replay.to_string().len());
    for v in viols {
        part.violation("C07", v.what, v.sig, v.replay);
    }
}

pub fn run(tier: Tier, started: Instant) -> Vec<Part> {
    let secs = |s: u64| started + std::time::Duration::from_secs(s);
    let mut parts = vec![];

    // A
    let mut a = Part::new("mtu/A-own-digest-eats-the-budget");
    a.rule = "a real node knowing 39 members with long ids, so that its own digest leaves exactly b bytes of room (65,507 - 4-byte message header - digest), for every b in the range; its own key `p` takes every value length 0..=b+8 in three content classes; each SYN-ACK is measured and its delta compared with the sender's state; non-trivial = replies that carry the probe entry".into();
    let range = tier.pick(100..=160usize, 100..=400usize);
    a.bounds = json!({"budgets_left_by_own_digest": [range.start(), range.end()], "contents": ["repeat","7bit","mixed"], "members": 40});
    let (t, v, capped) = family_a(range, &mut Tally::default(), secs(tier.pick(25, 1500)));
    a.tally.merge(&t);
    push(&mut a, v);
    a.states = a.tally.get("replies");
    a.transitions = a.tally.get("replies");
    a.executions = a.tally.get("replies");
    a.distinct_nontrivial = a.tally.get("replies_with_probe");
    a.exhaustive = !capped;
    if capped {
        a.caps_hit.push("wall cap".into());
    }
    a.sample(json!({"own_digest_leaves": 137, "content": "Mixed", "probe_value_len": 80, "kind": "SYN-ACK"}));
    a.require("replies_with_probe");
    a.require("replies_truncated");
    parts.push(a);

    // B
    let mut b = Part::new("mtu/B-block-and-budget-boundaries");
    b.rule = "(tuned cases: four blocks of near-incompressible text plus as many blocks of a repeated character as still let a 60-byte probe fit, ending 0..200 bytes past a block boundary, so that the compressed stream nearly exhausts the budget and the last block is tiny) a real node owning filler entries whose raw op stream ends -3..+3 bytes around each 16,384-byte block boundary (1, 3 or 40 fillers; three content classes; SYN-ACK and ACK), or leaves only 30/60/120 bytes of budget; the largest probe value that still fits is found by bisection on the real code and every probe length in a window of 65 consecutive values around it is replayed; every reply is measured and its delta compared with the sender's state; non-trivial = replies in the windows that were truncated".into();
    let mut cases = b_cases(tier);
    let tuned = tuned_cases(tier);
    b.tally.add("tuned_tight_cases", tuned.len() as u64);
    cases.extend(tuned);
    b.bounds = json!({"cases": cases.len(), "window": [-40, 24]});
    let deadline = secs(tier.pick(50, 3000));
    let capped = std::sync::atomic::AtomicBool::new(false);
    let results: Vec<(Tally, Vec<Viol>)> = cases
        .par_iter()
        .map(|c| {
            let mut t = Tally::default();
            let mut v = vec![];
            if Instant::now() > deadline {
                capped.store(true, std::sync::atomic::Ordering::Relaxed);
                return (t, v);
            }
            t.inc("cases");
            run_b(c, 40, 24, &mut t, &mut v);
            (t, v)
        })
        .collect();
    let mut viols = vec![];
    for (t, v) in results {
        b.tally.merge(&t);
        viols.extend(v);
    }
    push(&mut b, viols);
    b.states = b.tally.get("cases");
    b.transitions = b.tally.get("replies");
    b.executions = b.tally.get("replies");
    b.distinct_nontrivial = b.tally.get("replies_truncated");
    if capped.load(std::sync::atomic::Ordering::Relaxed) {
        b.exhaustive = false;
        b.caps_hit.push("wall cap".into());
    }
    b.sample(json!({"content":"Mixed","kind":"Ack","fillers":[16345],"probe_window":"threshold-40..threshold+24"}));
    b.require("thresholds_found");
    b.require("replies_with_several_blocks");
    parts.push(b);

    // D
    let mut d = Part::new("mtu/D-every-budget-several-members");
    d.rule = "a real node holding copies of three members (6 entries of every status; a copy past a reset with watermark 4; an empty copy with max version 5) plus its own two keys answers peer digests with different floors under EVERY budget from 100 to 2,200 bytes and every equal-staleness order; the stream must fit the budget and each member delta must be exactly the sender's entries in (start, delta max] in ascending order; non-trivial = distinct truncation points reached".into();
    let (t, v, capped) = family_d(tier, secs(tier.pick(58, 3300)));
    d.tally.merge(&t);
    push(&mut d, v);
    d.states = d.tally.get("replies");
    d.transitions = d.tally.get("deltas");
    d.executions = d.tally.get("deltas");
    d.distinct_nontrivial = d.tally.get("distinct_truncation_points");
    d.exhaustive = !capped;
    if capped {
        d.caps_hit.push("wall cap".into());
    }
    d.sample(json!({"floors":[[0,3],[4,7],[0,5]],"budget":431}));
    parts.push(d);
    parts
}

pub fn replay(v: &Value) -> Result<(), String> {
    let content = match v["content"].as_str().unwrap_or("") {
        "Repeat" => Content::Repeat,
        "Full7" => Content::Full7,
        "Ascii7" => Content::Ascii7,
        _ => Content::Mixed,
    };
    match v["family"].as_str().unwrap_or("") {
        "A" => {
            let b = v["budget_left_by_digest"].as_u64().ok_or("no budget")? as usize;
            let vlen = v["value_len"].as_u64().ok_or("no len")? as usize;
            let mut node = node_with_digest_len(65_503 - b).ok_or("digest not constructible")?;
            node.cc.self_node_state().set("p", text(vlen, content, vlen as u64));
            let (bytes, meaning) = reply_of(&mut node, Kind::SynAck, 0)?;
            println!("SYN-ACK of {} bytes, probe included: {}", bytes.len(), has_key(&meaning, "p"));
            if bytes.len() > codec::MAX_DATAGRAM {
                return Err(format!("datagram of {} bytes", bytes.len()));
            }
            Ok(())
        }
        "B" => {
            let kind = if v["kind"].as_str() == Some("Ack") { Kind::Ack } else { Kind::SynAck };
            let fillers: Vec<usize> = v["fillers"].as_array().map(|a| a.iter().filter_map(|x| x.as_u64().map(|x| x as usize)).collect()).unwrap_or_default();
            let vlen = v["probe_value_len"].as_u64().unwrap_or(0) as usize;
            let pc = |s: &str| match s {
                "Repeat" => Content::Repeat,
                "Full7" => Content::Full7,
                "Ascii7" => Content::Ascii7,
                _ => Content::Mixed,
            };
            let filler_contents: Vec<Content> = v["filler_contents"].as_array().map(|a| a.iter().filter_map(|x| x.as_str().map(pc)).collect()).unwrap_or_default();
            let case = BCase { content, kind, fillers, filler_contents, floor: v["floor"].as_u64().unwrap_or(0) };
            let mut node = build_b(&case);
            node.cc.self_node_state().set("zprobe", text(vlen, content, 77 + vlen as u64));
            let (bytes, meaning) = reply_of(&mut node, kind, v["floor"].as_u64().unwrap_or(0))?;
            println!("{kind:?} of {} bytes, probe included: {}", bytes.len(), has_key(&meaning, "zprobe"));
            let mut cv = vec![];
            check_content(&node, &meaning, &mut cv);
            for (w, _) in &cv {
                println!("!! {w}");
            }
            if bytes.len() > codec::MAX_DATAGRAM {
                return Err(format!("datagram of {} bytes", bytes.len()));
            }
            if let Some((w, _)) = cv.first() {
                return Err(w.clone());
            }
            Ok(())
        }
        _ => Err("family D cases are replayed by running ./check C07".into()),
    }
}
