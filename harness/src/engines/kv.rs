//! `kv` — local key-value API against a reference versioned map (C06; C04 first sentence).
//!
//! Part 1: every operation sequence up to a length bound, no deduplication.
//! Part 2: breadth-first search to depth 40 with deduplication on an abstraction of the
//! reference state (order-preserving renaming of versions, saturation of ages).

use std::time::Duration;

use rayon::prelude::*;
use serde_json::json;

use crate::codec::Id;
use crate::node::{copy_snap, Node, NodeOpts};
use crate::report::{Part, Tier};
use crate::util::{guarded, hash128, Tally};

/// Grace period of the kv engine: deliberately not a whole number of seconds (a GC predicate that
/// truncates ages to seconds — seeded change C06-r5 — is invisible with 1000 ms).
pub const G_MS: u64 = 1500;

#[derive(Clone, Copy, Debug, PartialEq, Eq, Hash, PartialOrd, Ord)]
pub enum Op {
    Set(u8, u8),
    SetTtl(u8, u8),
    Delete(u8),
    DeleteTtl(u8),
    AdvAlmost, // G - 1 ms
    AdvOne,    // 1 ms
    Gc,
}

pub const KEYS: [&str; 5] = ["", "a", "ab", "b", "é"];
pub const VALUES: [&str; 2] = ["x", "y"];
pub const PREFIXES: [&str; 6] = ["", "a", "ab", "b", "c", "é"];

pub fn alphabet(nkeys: usize) -> Vec<Op> {
    let mut v = vec![];
    for k in 0..nkeys as u8 {
        for val in 0..2u8 {
            v.push(Op::Set(k, val));
        }
    }
    for k in 0..nkeys as u8 {
        for val in 0..2u8 {
            v.push(Op::SetTtl(k, val));
        }
    }
    for k in 0..nkeys as u8 {
        v.push(Op::Delete(k));
    }
    for k in 0..nkeys as u8 {
        v.push(Op::DeleteTtl(k));
    }
    v.push(Op::AdvAlmost);
    v.push(Op::AdvOne);
    v.push(Op::Gc);
    v
}

pub fn op_json(op: &Op) -> serde_json::Value {
    match op {
        Op::Set(k, v) => json!({"op":"set","key":KEYS[*k as usize],"value":VALUES[*v as usize]}),
        Op::SetTtl(k, v) => json!({"op":"set_with_ttl","key":KEYS[*k as usize],"value":VALUES[*v as usize]}),
        Op::Delete(k) => json!({"op":"delete","key":KEYS[*k as usize]}),
        Op::DeleteTtl(k) => json!({"op":"delete_after_ttl","key":KEYS[*k as usize]}),
        Op::AdvAlmost => json!({"op":"advance_ms","ms":G_MS-1}),
        Op::AdvOne => json!({"op":"advance_ms","ms":1}),
        Op::Gc => json!({"op":"gc"}),
    }
}

pub fn op_from_json(v: &serde_json::Value) -> Option<Op> {
    let key = |v: &serde_json::Value| KEYS.iter().position(|k| Some(*k) == v["key"].as_str()).map(|i| i as u8);
    let val = |v: &serde_json::Value| VALUES.iter().position(|k| Some(*k) == v["value"].as_str()).map(|i| i as u8);
    Some(match v["op"].as_str()? {
        "set" => Op::Set(key(v)?, val(v)?),
        "set_with_ttl" => Op::SetTtl(key(v)?, val(v)?),
        "delete" => Op::Delete(key(v)?),
        "delete_after_ttl" => Op::DeleteTtl(key(v)?),
        "advance_ms" => {
            if v["ms"].as_u64()? == 1 {
                Op::AdvOne
            } else {
                Op::AdvAlmost
            }
        }
        "gc" => Op::Gc,
        _ => return None,
    })
}

// ------------------------------------------------------------------ reference model

pub use crate::refmodel::RefMap;
use crate::refmodel::{Call, RefEntry};

pub fn ref_apply(r: &mut RefMap, op: Op) {
    match op {
        Op::Set(k, v) => {
            r.call(Call::Set, KEYS[k as usize], VALUES[v as usize]);
        }
        Op::SetTtl(k, v) => {
            r.call(Call::SetTtl, KEYS[k as usize], VALUES[v as usize]);
        }
        Op::Delete(k) => {
            r.call(Call::Delete, KEYS[k as usize], "");
        }
        Op::DeleteTtl(k) => {
            r.call(Call::DeleteTtl, KEYS[k as usize], "");
        }
        Op::AdvAlmost => r.advance(G_MS - 1),
        Op::AdvOne => r.advance(1),
        Op::Gc => r.gc(G_MS),
    }
}

/// Abstraction used for deduplication in part 2.
fn abstract_key(r: &RefMap) -> u128 {
    // versions -> ranks among {entry versions, gc, mv}; ages -> {0, small, G-1, >=G}
    let mut vs: Vec<u64> = r.entries.values().map(|e| e.version).collect();
    vs.push(r.gc);
    vs.push(r.mv);
    vs.sort();
    vs.dedup();
    let rank = |v: u64| vs.binary_search(&v).unwrap() as u8;
    let age_class = |e: &RefEntry| -> u8 {
        if e.status == 0 {
            return 0;
        }
        let age = r.now - e.since;
        if age == 0 {
            1
        } else if age >= G_MS {
            4
        } else if age == G_MS - 1 {
            3
        } else {
            2
        }
    };
    let mut items: Vec<(String, String, u8, u8, u8)> = vec![];
    for (k, e) in &r.entries {
        items.push((k.clone(), e.value.clone(), e.status, rank(e.version), age_class(e)));
    }
    hash128(&(items, rank(r.gc), rank(r.mv), r.gc == 0))
}

// ------------------------------------------------------------------ real side

pub struct Real {
    node: Node,
}

impl Real {
    pub fn new() -> Real {
        let opts = NodeOpts { grace: Duration::from_millis(G_MS), ..Default::default() };
        Real { node: Node::new(&Id::v4("n", 0, 1000), &opts) }
    }
    pub fn apply(&mut self, op: Op) {
        let ns = self.node.cc.self_node_state();
        match op {
            Op::Set(k, v) => ns.set(KEYS[k as usize], VALUES[v as usize]),
            Op::SetTtl(k, v) => ns.set_with_ttl(KEYS[k as usize], VALUES[v as usize]),
            Op::Delete(k) => ns.delete(KEYS[k as usize]),
            Op::DeleteTtl(k) => ns.delete_after_ttl(KEYS[k as usize]),
            Op::AdvAlmost => crate::clock::advance(Duration::from_millis(G_MS - 1)),
            Op::AdvOne => crate::clock::advance(Duration::from_millis(1)),
            Op::Gc => self.node.cc.verif_gc_keys_marked_for_deletion(),
        }
    }

    /// Compares every read with the reference. Returns the first disagreement.
    pub fn compare(&mut self, r: &RefMap) -> Result<(), String> {
        let ns = self.node.cc.self_node_state();
        let snap = copy_snap(ns);
        if snap.mv != r.mv {
            return Err(format!("max_version: real {} ref {}", snap.mv, r.mv));
        }
        if snap.gc != r.gc {
            return Err(format!("last_gc_version: real {} ref {}", snap.gc, r.gc));
        }
        // key_values_including_deleted (order, values, versions, statuses, ages)
        let real_all: Vec<(String, String, u64, u8, Option<u64>)> = ns
            .key_values_including_deleted()
            .map(|(k, vv)| {
                let e = crate::node::entry_snap(vv, tokio::time::Instant::now());
                (k.to_string(), e.value, e.version, e.status, e.age.map(|a| a.as_millis() as u64))
            })
            .collect();
        let ref_all: Vec<(String, String, u64, u8, Option<u64>)> = r
            .entries
            .iter()
            .map(|(k, e)| (k.clone(), e.value.clone(), e.version, e.status, if e.status == 0 { None } else { Some(r.now - e.since) }))
            .collect();
        if real_all != ref_all {
            return Err(format!("key_values_including_deleted: real {real_all:?} ref {ref_all:?}"));
        }
        let real_vis: Vec<(String, String)> = ns.key_values().map(|(k, v)| (k.to_string(), v.to_string())).collect();
        let ref_vis = r.visible();
        if real_vis != ref_vis {
            return Err(format!("key_values: real {real_vis:?} ref {ref_vis:?}"));
        }
        if ns.num_key_values() != ref_vis.len() {
            return Err(format!("num_key_values: real {} ref {}", ns.num_key_values(), ref_vis.len()));
        }
        for k in KEYS.iter().chain(["c", "zz"].iter()) {
            let rg = r.entries.get(*k).filter(|e| e.status != 1).map(|e| e.value.clone());
            let got = ns.get(k).map(|s| s.to_string());
            if got != rg {
                return Err(format!("get({k:?}): real {got:?} ref {rg:?}"));
            }
            if ns.contains_key(k) != rg.is_some() {
                return Err(format!("contains_key({k:?}): real {} ref {}", ns.contains_key(k), rg.is_some()));
            }
            let gv = ns.get_versioned(k).map(|vv| (vv.value.clone(), vv.version, vv.is_deleted()));
            let rv = r.entries.get(*k).map(|e| (e.value.clone(), e.version, e.status == 1));
            if gv != rv {
                return Err(format!("get_versioned({k:?}): real {gv:?} ref {rv:?}"));
            }
        }
        for p in PREFIXES {
            let got: Vec<(String, String, u64)> = ns.iter_prefix(p).map(|(k, vv)| (k.to_string(), vv.value.clone(), vv.version)).collect();
            let exp: Vec<(String, String, u64)> = r
                .entries
                .iter()
                .filter(|(k, e)| e.status != 1 && k.starts_with(p))
                .map(|(k, e)| (k.clone(), e.value.clone(), e.version))
                .collect();
            if got != exp {
                return Err(format!("iter_prefix({p:?}): real {got:?} ref {exp:?}"));
            }
        }
        Ok(())
    }
}

/// Replays a sequence on a fresh real node and the reference; compares after the last op (or after
/// every op when `every`). Returns (first disagreement, index of the failing op).
pub fn run_sequence(seq: &[Op], every: bool) -> Result<RefMap, (String, usize)> {
    let mut real = Real::new();
    let mut r = RefMap::default();
    for (i, op) in seq.iter().enumerate() {
        let res = guarded(|| real.apply(*op));
        if let Err(p) = res {
            return Err((format!("panic: {p}"), i));
        }
        ref_apply(&mut r, *op);
        if every || i + 1 == seq.len() {
            match guarded(|| real.compare(&r)) {
                Ok(Ok(())) => {}
                Ok(Err(e)) => return Err((e, i)),
                Err(p) => return Err((format!("panic in read: {p}"), i)),
            }
        }
    }
    Ok(r)
}

fn signature_of(msg: &str) -> String {
    if msg.starts_with("panic") {
        format!("kv-panic:{}", crate::util::short_loc(msg))
    } else {
        format!("kv-mismatch:{}", msg.split(':').next().unwrap_or("").split('(').next().unwrap_or(""))
    }
}

fn replay_json(seq: &[Op]) -> serde_json::Value {
    json!({"engine":"kv","config":{"grace_ms":G_MS},"actions": seq.iter().map(op_json).collect::<Vec<_>>()})
}

/// Part 1: all sequences of length <= max_len over the alphabet with `nkeys` keys.
pub fn exhaustive(property: &str, nkeys: usize, max_len: usize, deadline: std::time::Instant) -> Part {
    let mut part = Part::new(&format!("kv/exhaustive(keys={nkeys},len<={max_len})"));
    let alpha = alphabet(nkeys);
    let a = alpha.len();
    part.rule = format!(
        "every sequence of length 1..={max_len} over {a} operations (set/set_with_ttl x {nkeys} keys x 2 values, delete/delete_after_ttl x {nkeys} keys, advance G-1ms, advance 1ms, gc) replayed on a fresh real node; all reads compared with the reference after the last operation (every proper prefix is itself an enumerated sequence); non-trivial = the sequence ends in a state with at least one entry or a raised watermark"
    );
    part.bounds = json!({"keys": &KEYS[..nkeys], "values": VALUES, "max_len": max_len, "alphabet": a, "grace_ms": G_MS});
    // parallelise over the first two operations
    let prefixes: Vec<Vec<Op>> = if max_len >= 2 {
        alpha.iter().flat_map(|x| alpha.iter().map(move |y| vec![*x, *y])).collect()
    } else {
        vec![]
    };
    // length-1 sequences
    let mut results: Vec<(Tally, Vec<(String, Vec<Op>)>, Option<Vec<Op>>)> = vec![];
    {
        let mut t = Tally::default();
        let mut viol = vec![];
        for x in &alpha {
            t.inc("sequences");
            match run_sequence(&[*x], true) {
                Ok(r) => {
                    if !r.entries.is_empty() || r.gc > 0 {
                        t.inc("nontrivial");
                    }
                }
                Err((e, _)) => viol.push((e, vec![*x])),
            }
        }
        results.push((t, viol, None));
    }
    let capped = std::sync::atomic::AtomicBool::new(false);
    let par: Vec<(Tally, Vec<(String, Vec<Op>)>, Option<Vec<Op>>)> = prefixes
        .par_iter()
        .map(|prefix| {
            let mut t = Tally::default();
            let mut viol: Vec<(String, Vec<Op>)> = vec![];
            let mut sample = None;
            // iterative enumeration of all extensions of `prefix` up to max_len
            let mut stack: Vec<Vec<Op>> = vec![prefix.clone()];
            while let Some(seq) = stack.pop() {
                if std::time::Instant::now() > deadline {
                    capped.store(true, std::sync::atomic::Ordering::Relaxed);
                    break;
                }
                t.inc("sequences");
                t.add("real_ops", seq.len() as u64);
                match run_sequence(&seq, false) {
                    Ok(r) => {
                        if !r.entries.is_empty() || r.gc > 0 {
                            t.inc("nontrivial");
                        }
                        if r.gc > 0 {
                            t.inc("ended_with_raised_watermark");
                        }
                        if r.entries.values().any(|e| e.status == 2) {
                            t.inc("ended_with_ttl_entry");
                        }
                        if sample.is_none() && seq.len() == max_len && r.gc > 0 && !r.entries.is_empty() {
                            sample = Some(seq.clone());
                        }
                    }
                    Err((e, _)) => {
                        if viol.len() < 3 {
                            viol.push((e, seq.clone()));
                        }
                        // do not extend a failing sequence
                        continue;
                    }
                }
                if seq.len() < max_len {
                    for x in alpha.iter().rev() {
                        let mut s = seq.clone();
                        s.push(*x);
                        stack.push(s);
                    }
                }
            }
            (t, viol, sample)
        })
        .collect();
    results.extend(par);
    for (t, viol, sample) in results {
        part.tally.merge(&t);
        for (e, seq) in viol {
            part.violation(property, format!("kv: {e} after {:?}", seq), signature_of(&e), replay_json(&seq));
        }
        if let Some(s) = sample {
            part.sample(json!(s.iter().map(op_json).collect::<Vec<_>>()));
        }
    }
    part.executions = part.tally.get("sequences");
    part.states = part.tally.get("sequences");
    part.transitions = part.tally.get("real_ops").max(part.executions);
    part.distinct_nontrivial = part.tally.get("nontrivial");
    if capped.load(std::sync::atomic::Ordering::Relaxed) {
        part.exhaustive = false;
        part.caps_hit.push("wall cap reached before all sequences were enumerated".into());
    }
    part.require("ended_with_raised_watermark");
    part
}

/// Part 2: BFS with deduplication to `max_depth`.
pub fn bfs(property: &str, nkeys: usize, max_depth: usize, max_states: usize, deadline: std::time::Instant) -> Part {
    let mut part = Part::new(&format!("kv/bfs(keys={nkeys},depth<={max_depth})"));
    let alpha = alphabet(nkeys);
    part.rule = format!(
        "breadth-first search over operation sequences up to length {max_depth}, each state re-created by replaying its history on a fresh real node, all reads compared after every transition; states deduplicated on the reference state up to order-preserving renaming of versions and the age classes {{0, (0,G-1), G-1, >=G}} (sound if the implementation only compares versions and ages against G, which the no-dedup part checks without this abstraction)"
    );
    part.bounds = json!({"keys": &KEYS[..nkeys], "values": VALUES, "max_depth": max_depth, "max_states": max_states});
    let mut seen: std::collections::HashSet<u128> = Default::default();
    seen.insert(abstract_key(&RefMap::default()));
    let mut frontier: Vec<Vec<Op>> = vec![vec![]];
    let mut depth = 0;
    let mut states = 1u64;
    while !frontier.is_empty() && depth < max_depth {
        if std::time::Instant::now() > deadline || seen.len() > max_states {
            part.exhaustive = false;
            part.caps_hit.push(format!("stopped at depth {depth} (wall or state cap); all depths below are complete"));
            break;
        }
        let results: Vec<(Vec<(u128, Vec<Op>)>, Vec<(String, Vec<Op>)>, u64)> = frontier
            .par_iter()
            .map(|hist| {
                let mut succ = vec![];
                let mut viol = vec![];
                let mut n = 0u64;
                for op in &alpha {
                    let mut h = hist.clone();
                    h.push(*op);
                    n += 1;
                    match run_sequence(&h, false) {
                        Ok(r) => succ.push((abstract_key(&r), h)),
                        Err((e, _)) => viol.push((e, h)),
                    }
                }
                (succ, viol, n)
            })
            .collect();
        let mut next: Vec<(u128, Vec<Op>)> = vec![];
        for (succ, viol, n) in results {
            part.transitions += n;
            part.executions += n;
            for (e, h) in viol {
                part.violation(property, format!("kv: {e} after {:?}", h), signature_of(&e), replay_json(&h));
            }
            next.extend(succ);
        }
        next.sort();
        let mut new_frontier = vec![];
        for (k, h) in next {
            if seen.insert(k) {
                states += 1;
                new_frontier.push(h);
            }
        }
        depth += 1;
        part.tally.max("max_depth_reached", depth as u64);
        if let Some(h) = new_frontier.last() {
            if depth % 4 == 0 {
                part.sample(json!(h.iter().map(op_json).collect::<Vec<_>>()));
            }
        }
        frontier = new_frontier;
    }
    if frontier.is_empty() {
        part.notes.push(format!("fixpoint: no new abstract state after depth {depth}; deeper sequences only revisit explored states"));
        part.tally.add("fixpoint_reached", 1);
    }
    part.states = states;
    part.distinct_nontrivial = states.saturating_sub(1);
    part
}

pub fn run(property: &str, tier: Tier, started: std::time::Instant) -> Vec<Part> {
    let wall = |s: u64| started + Duration::from_secs(s);
    match tier {
        Tier::Quick => vec![
            exhaustive(property, 5, 4, wall(40)),
            exhaustive(property, 3, 5, wall(40)),
            bfs(property, 3, 40, 400_000, wall(50)),
        ],
        Tier::Thorough => vec![
            exhaustive(property, 5, 5, wall(600)),
            exhaustive(property, 3, 6, wall(1200)),
            bfs(property, 3, 40, 6_000_000, wall(1500)),
            bfs(property, 4, 40, 6_000_000, wall(2400)),
        ],
    }
}

/// Replay of a stored kv history, printing the comparison after every step.
pub fn replay(v: &serde_json::Value) -> Result<(), String> {
    let ops: Vec<Op> = v["actions"].as_array().ok_or("no actions")?.iter().filter_map(op_from_json).collect();
    for i in 1..=ops.len() {
        match run_sequence(&ops[..i], true) {
            Ok(r) => println!("step {i} {:?}: ok mv={} gc={} entries={:?}", ops[i - 1], r.mv, r.gc, r.entries),
            Err((e, at)) => {
                println!("step {} {:?}: MISMATCH {e}", at + 1, ops[at]);
                return Err(e);
            }
        }
    }
    Ok(())
}
