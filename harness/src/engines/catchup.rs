//! `catchup` — the external catch-up entry point `reset_node_state_if_update` (C18).

use std::collections::BTreeMap;
use std::time::{Duration, Instant};

use chitchat::{DeletionStatus, VersionedValue};
use rayon::prelude::*;
use serde_json::{json, Value};

use crate::codec::{DigestEntry, Id, Msg, Op};
use crate::node::{Node, NodeOpts};
use crate::real;
use crate::report::{Part, Tier};
use crate::util::{guarded, short_loc, Tally};

fn x_id() -> Id {
    Id::v4("x", 1, 10_009)
}

fn opts() -> NodeOpts {
    NodeOpts {
        fd: chitchat::FailureDetectorConfig::new(8.0, 1000, Duration::from_secs(10), Duration::from_secs(5), Duration::from_secs(20)),
        ..Default::default()
    }
}

pub const EXISTING: [&str; 12] = ["absent", "empty", "behind", "late-tombstone", "with-tombstones", "midreset-empty", "midreset-one", "midreset-tombstone", "ahead", "removed", "removed-never-heartbeated", "live"];

fn kv(k: &str, ver: u64, st: u8) -> Op {
    Op::Kv { key: k.into(), value: if st == 1 { String::new() } else { format!("old-{k}{ver}") }, version: ver, status: st }
}

fn hello(hb: u64) -> chitchat::ChitchatMessage {
    real::build_real(&Msg::Syn { digest: vec![DigestEntry { id: x_id(), heartbeat: hb, gc: 0, mv: 0 }], cluster_id: "c".into() }).unwrap()
}

fn ack(ops: Vec<Op>) -> chitchat::ChitchatMessage {
    real::build_real(&Msg::Ack { ops }).unwrap()
}

/// Builds the receiver with the named existing copy of X.
pub fn receiver(existing: &str) -> Node {
    let mut n = Node::new(&Id::v4("n", 1, 10_001), &opts());
    let x = x_id();
    match existing {
        "absent" => {}
        "empty" => {
            n.cc.verif_process_message(hello(1));
        }
        "behind" => {
            n.cc.verif_process_message(hello(1));
            n.cc.verif_process_message(ack(vec![Op::Node { id: x, gc: 0, from: 0 }, kv("a", 1, 0), kv("b", 2, 0)]));
        }
        "late-tombstone" => {
            // the copy's highest version is a tombstone of `a`: a supplied state that keeps it and adds an
            // older tombstone (stamped later) makes tombstones expire out of version order
            n.cc.verif_process_message(hello(1));
            n.cc.verif_process_message(ack(vec![Op::Node { id: x, gc: 0, from: 0 }, kv("a", 3, 1)]));
        }
        "with-tombstones" => {
            // a live key, a tombstone for `c`, and a tombstone for a key no supplied state mentions
            n.cc.verif_process_message(hello(1));
            n.cc.verif_process_message(ack(vec![Op::Node { id: x, gc: 0, from: 0 }, kv("a", 1, 0), kv("c", 2, 1), kv("gone", 3, 1)]));
        }
        "midreset-tombstone" => {
            n.cc.verif_process_message(hello(1));
            n.cc.verif_process_message(ack(vec![Op::Node { id: x, gc: 2, from: 0 }, kv("a", 1, 0), kv("gone", 3, 1)]));
        }
        "midreset-empty" => {
            n.cc.verif_process_message(hello(1));
            n.cc.verif_process_message(ack(vec![Op::Node { id: x, gc: 3, from: 0 }]));
        }
        "midreset-one" => {
            n.cc.verif_process_message(hello(1));
            n.cc.verif_process_message(ack(vec![Op::Node { id: x, gc: 3, from: 0 }, kv("a", 1, 0)]));
        }
        "ahead" => {
            n.cc.verif_process_message(hello(1));
            n.cc.verif_process_message(ack(vec![Op::Node { id: x, gc: 0, from: 0 }, kv("a", 4, 0), kv("b", 5, 2)]));
        }
        "removed-never-heartbeated" => {
            // the member only ever came through the catch-up entry point (heartbeat 0), was found dead
            // and garbage collected
            let id = real::to_real_id(&x_id());
            let kvs = vec![("a".to_string(), VersionedValue { value: "old-a1".into(), version: 1, status: DeletionStatus::Set })];
            n.cc.reset_node_state_if_update(&id, kvs.into_iter(), 1, 0);
            n.cc.verif_update_nodes_liveness();
            crate::clock::advance(Duration::from_secs(21));
            n.cc.verif_update_nodes_liveness();
            assert!(n.cc.node_state(&id).is_none(), "harness: member was not removed");
        }
        "removed" => {
            n.cc.verif_process_message(hello(5));
            n.cc.verif_update_nodes_liveness();
            crate::clock::advance(Duration::from_secs(21));
            n.cc.verif_update_nodes_liveness();
            assert!(n.cc.node_state(&real::to_real_id(&x_id())).is_none(), "harness: member was not removed");
        }
        _ => {
            // live in the failure detector, with the "behind" content
            for hb in 1..=3 {
                n.cc.verif_process_message(hello(hb));
                crate::clock::advance(Duration::from_secs(1));
            }
            n.cc.verif_process_message(ack(vec![Op::Node { id: x, gc: 0, from: 0 }, kv("a", 1, 0), kv("b", 2, 0)]));
            n.cc.verif_update_nodes_liveness();
        }
    }
    n
}

#[derive(Clone, Debug)]
pub struct Supplied {
    /// (key, version, status)
    pub kvs: Vec<(&'static str, u64, u8)>,
    pub mv: u64,
    pub gc: u64,
    /// key `a` is supplied with the value string the copies of the engine already hold for it
    /// ("old-a1"): same string, possibly a newer version or another status
    pub same_value: bool,
}

fn supplied_value(s: &Supplied, k: &str, ver: u64, st: u8) -> String {
    if st == 1 {
        String::new()
    } else if s.same_value && k == "a" {
        "old-a1".to_string()
    } else {
        format!("new-{k}{ver}")
    }
}

pub fn supplied_json(s: &Supplied) -> Value {
    json!({"key_values": s.kvs.iter().map(|(k, v, st)| json!([k, v, st])).collect::<Vec<_>>(), "max_version": s.mv, "last_gc_version": s.gc, "same_value": s.same_value})
}

pub fn all_supplied(vmax: u64) -> Vec<Supplied> {
    let mut keysets: Vec<Vec<(&'static str, u64, u8)>> = vec![vec![]];
    for ver in 0..vmax {
        for st in 0..3u8 {
            keysets.push(vec![("a", ver, st)]);
            keysets.push(vec![("c", ver, st)]);
            for ver2 in 0..vmax {
                for st2 in 0..3u8 {
                    keysets.push(vec![("a", ver, st), ("c", ver2, st2)]);
                }
            }
        }
    }
    let mut out = vec![];
    for ks in keysets {
        for mv in 0..=vmax {
            for gc in 0..=vmax {
                out.push(Supplied { kvs: ks.clone(), mv, gc, same_value: false });
                if ks.iter().any(|(k, _, st)| *k == "a" && *st != 1) {
                    out.push(Supplied { kvs: ks.clone(), mv, gc, same_value: true });
                }
            }
        }
    }
    out
}

type CopyView = Option<(u64, u64, BTreeMap<String, (u64, u8, String)>)>;

fn copy_of(n: &Node) -> CopyView {
    let ns = n.cc.node_state(&real::to_real_id(&x_id()))?;
    Some((
        ns.last_gc_version(),
        ns.max_version(),
        ns.key_values_including_deleted().map(|(k, vv)| (k.to_string(), (vv.version, crate::node::status_kind(vv), vv.value.clone()))).collect(),
    ))
}

fn call(n: &mut Node, s: &Supplied) -> Result<(), String> {
    let now = tokio::time::Instant::now();
    let kvs: Vec<(String, VersionedValue)> = s
        .kvs
        .iter()
        .map(|(k, ver, st)| {
            let status = match st {
                0 => DeletionStatus::Set,
                1 => DeletionStatus::Deleted(now),
                _ => DeletionStatus::DeleteAfterTtl(now),
            };
            (k.to_string(), VersionedValue { value: supplied_value(s, k, *ver, *st), version: *ver, status })
        })
        .collect();
    let id = real::to_real_id(&x_id());
    let (mv, gc) = (s.mv, s.gc);
    guarded(|| n.cc.reset_node_state_if_update(&id, kvs.into_iter(), mv, gc)).map(|_| ())
}

/// Oracle for one call. Returns (what, signature) on violation; `applied` tells whether the key
/// set was replaced.
fn judge(existing: &str, before: &CopyView, after: &CopyView, s: &Supplied, live_before: bool, live_after: bool, applied: &mut bool) -> Option<(String, String)> {
    if existing.starts_with("removed") && before.is_none() {
        // (gossip may legitimately have re-created the member before the call — a peer advertising a
        // heartbeat above the one known at removal — in which case it is an ordinary copy again)
        if after.is_some() {
            return Some(("a member that was garbage collected was recreated by the catch-up call".into(), "gc-member-recreated".into()));
        }
        return None;
    }
    if live_after && !live_before {
        return Some(("the catch-up call made the member live".into(), "made-live".into()));
    }
    let empty = (0u64, 0u64, BTreeMap::new());
    let b = before.clone().unwrap_or_else(|| empty.clone());
    let a = after.clone().unwrap_or_else(|| empty.clone());
    if (a.0, a.1) < (b.0, b.1) {
        return Some((format!("frontier lowered from ({},{}) to ({},{})", b.0, b.1, a.0, a.1), "frontier-lowered".into()));
    }
    if a == b {
        return None;
    }
    // a key's stored version never decreases unless the copy's watermark rose
    if a.0 <= b.0 {
        for (k, old) in &b.2 {
            if let Some(new) = a.2.get(k) {
                if new.0 < old.0 {
                    return Some((format!("stored version of key {k:?} went from {} to {} although the watermark did not rise ({} -> {})", old.0, new.0, b.0, a.0), "key-version-decreased".into()));
                }
            }
        }
    }
    // replaced: key set := supplied, newer version of a key present in both wins
    *applied = true;
    let mut want: BTreeMap<String, (u64, u8, String)> = BTreeMap::new();
    for (k, ver, st) in &s.kvs {
        let newv = (*ver, *st, supplied_value(s, k, *ver, *st));
        let e = match b.2.get(*k) {
            Some(old) if old.0 >= *ver => old.clone(),
            _ => newv,
        };
        want.insert(k.to_string(), e);
    }
    if a.2 != want {
        return Some((
            format!("copy was changed but its key set is neither the old one nor the supplied one: before {:?}, supplied {}, after {:?}", b.2.keys().collect::<Vec<_>>(), supplied_json(s), a.2.iter().map(|(k, v)| (k, v.0, v.1)).collect::<Vec<_>>()),
            "key-set-mismatch".into(),
        ));
    }
    None
}

pub struct Viol {
    pub what: String,
    pub sig: String,
    pub replay: Value,
}

fn is_live(n: &Node) -> bool {
    let id = real::to_real_id(&x_id());
    n.cc.live_nodes().any(|l| *l == id)
}

/// A peer that holds X at (0,3){a@1,b@2,d@3}, used for the "interleaved with gossip" positions.
fn peer() -> Node {
    let mut p = Node::new(&Id::v4("p", 1, 10_002), &opts());
    p.cc.verif_process_message(hello(2));
    p.cc.verif_process_message(ack(vec![Op::Node { id: x_id(), gc: 0, from: 0 }, kv("a", 1, 0), kv("b", 2, 0), kv("d", 3, 0)]));
    p
}

fn frontiers(n: &Node) -> Vec<(Id, u64, u64)> {
    n.cc.node_states().iter().map(|(id, ns)| (real::from_real_id(id), ns.last_gc_version(), ns.max_version())).collect()
}

/// position: 0 = call alone, 1 = call then handshake, 2 = handshake then call, 3 = between SYN and SYN-ACK
pub fn one_case(existing: &str, s: &Supplied, position: u8, t: &mut Tally) -> Option<(String, String)> {
    let mut n = receiver(existing);
    let mut p = if position > 0 { Some(peer()) } else { None };
    t.inc("cases");
    let mut pending_synack = None;
    if position == 2 {
        let syn = n.cc.verif_create_syn_message();
        let synack = p.as_mut().unwrap().cc.verif_process_message(syn)?;
        let ackm = n.cc.verif_process_message(synack)?;
        p.as_mut().unwrap().cc.verif_process_message(ackm);
    }
    if position == 3 {
        let syn = n.cc.verif_create_syn_message();
        pending_synack = p.as_mut().unwrap().cc.verif_process_message(syn);
    }
    // tombstones supplied by the call are stamped 4 s later than those the copy already holds
    crate::clock::advance(Duration::from_secs(4));
    let before = copy_of(&n);
    let live_before = is_live(&n);
    if let Err(pmsg) = call(&mut n, s) {
        return Some((format!("reset_node_state_if_update panicked on copy `{existing}` with {}: {pmsg}", supplied_json(s)), format!("panic:{}", short_loc(&pmsg))));
    }
    let after = copy_of(&n);
    let mut applied = false;
    if let Some(v) = judge(existing, &before, &after, s, live_before, is_live(&n), &mut applied) {
        return Some(v);
    }
    if applied {
        t.inc("calls_that_replaced_the_key_set");
    } else {
        t.inc("calls_that_left_the_copy_unchanged");
    }
    // Gossip afterwards must keep working and stay monotone. This goes beyond the call itself, so it
    // is only demanded when the supplied state is one an honest source could hold: distinct
    // versions >= 1, none above the supplied max version.
    let consistent = s.kvs.iter().all(|(_, v, _)| *v >= 1 && *v <= s.mv) && s.kvs.iter().map(|k| k.1).collect::<std::collections::BTreeSet<_>>().len() == s.kvs.len();
    // ... and one that does not contradict what the copy already holds of the same owner: a shared
    // key is not older in the supplied (newer) snapshot, and one version designates one key
    let agrees_with_copy = before.as_ref().map(|b| {
        b.2.iter().all(|(k, (ve, _, _))| {
            s.kvs.iter().all(|(sk, sv, _)| if sk == k { sv >= ve } else { sv != ve })
        })
    }).unwrap_or(true);
    if !consistent || !agrees_with_copy {
        t.inc("inconsistent_supplied_states");
        return None;
    }
    t.inc("consistent_supplied_states_followed_by_gossip");
    let fr = frontiers(&n);
    let res = guarded(|| {
        if let Some(m) = pending_synack {
            if let Some(a) = n.cc.verif_process_message(m) {
                p.as_mut().unwrap().cc.verif_process_message(a);
            }
        }
        if position == 1 {
            let syn = n.cc.verif_create_syn_message();
            if let Some(sa) = p.as_mut().unwrap().cc.verif_process_message(syn) {
                if let Some(a) = n.cc.verif_process_message(sa) {
                    p.as_mut().unwrap().cc.verif_process_message(a);
                }
            }
        }
        n.cc.verif_update_nodes_liveness();
        n.cc.verif_gc_keys_marked_for_deletion();
    });
    if let Err(pmsg) = res {
        return Some((format!("gossip after the catch-up call panicked: {pmsg}"), format!("panic:{}", short_loc(&pmsg))));
    }
    for (id, gc, mv) in fr {
        if let Some(ns) = n.cc.node_state(&real::to_real_id(&id)) {
            if (ns.last_gc_version(), ns.max_version()) < (gc, mv) {
                return Some((format!("gossip after the catch-up call lowered the frontier of {}", id.node_id), "frontier-lowered".into()));
            }
        }
    }
    if existing.starts_with("removed") && position == 0 && copy_of(&n).is_some() {
        return Some(("garbage collected member present after the call".into(), "gc-member-recreated".into()));
    }
    // Key GC passes as the tombstones expire: first those the copy held before the call (grace period
    // 10 s after the copy was built), then those stamped by the call; frontiers must not go down.
    for (i, step_ms) in [6_001u64, 4_000, 10_000].into_iter().enumerate() {
        let fr = frontiers(&n);
        crate::clock::advance(Duration::from_millis(step_ms));
        if let Err(pmsg) = guarded(|| n.cc.verif_gc_keys_marked_for_deletion()) {
            return Some((format!("key GC after the catch-up call panicked: {pmsg}"), format!("panic:{}", short_loc(&pmsg))));
        }
        for (id, gc, mv) in fr {
            if let Some(ns) = n.cc.node_state(&real::to_real_id(&id)) {
                if (ns.last_gc_version(), ns.max_version()) < (gc, mv) {
                    return Some((format!("key GC pass {} after the catch-up call lowered the frontier of {} from ({gc},{mv}) to ({},{})", i + 1, id.node_id, ns.last_gc_version(), ns.max_version()), "frontier-lowered".into()));
                }
                if ns.last_gc_version() > gc {
                    t.inc("gc_passes_that_raised_a_watermark");
                }
            }
        }
    }
    None
}

// ------------------------------------------------------------------ sequences of calls (the "by itself" clause)

#[derive(Clone, Copy, Debug, PartialEq, Eq)]
enum Ev {
    Call(usize),
    Adv(u64),
    Eval,
    Hb,
}

fn seq_supplied() -> Vec<Supplied> {
    vec![
        Supplied { kvs: vec![("a", 1, 0)], mv: 1, gc: 0, same_value: false },
        Supplied { kvs: vec![("a", 1, 0), ("c", 2, 0)], mv: 2, gc: 0, same_value: false },
        Supplied { kvs: vec![("c", 3, 1)], mv: 3, gc: 2, same_value: false },
        Supplied { kvs: vec![], mv: 4, gc: 4, same_value: false },
        Supplied { kvs: vec![("a", 6, 0)], mv: 6, gc: 0, same_value: false },
    ]
}

fn ev_json(e: &Ev) -> Value {
    match e {
        Ev::Call(i) => json!({"call": supplied_json(&seq_supplied()[*i])}),
        Ev::Adv(ms) => json!({"advance_ms": ms}),
        Ev::Eval => json!("evaluate"),
        Ev::Hb => json!("heartbeat"),
    }
}

/// Runs `seq` on a fresh receiver; with `with_calls == false` the calls are skipped (the twin).
/// Returns the member's liveness after every event, or a violation of the per-call oracle.
fn run_sequence(existing: &str, seq: &[Ev], with_calls: bool, t: &mut Tally) -> Result<Vec<bool>, (String, String)> {
    let sup = seq_supplied();
    let mut n = receiver(existing);
    let mut hb = 10u64;
    let mut live = vec![];
    for e in seq {
        match e {
            Ev::Call(i) if with_calls => {
                let before = copy_of(&n);
                let live_before = is_live(&n);
                if let Err(p) = call(&mut n, &sup[*i]) {
                    return Err((format!("reset_node_state_if_update panicked in a sequence of calls: {p}"), format!("panic:{}", short_loc(&p))));
                }
                let after = copy_of(&n);
                let mut applied = false;
                // a member removed at the start may have been legitimately re-created by a heartbeat event
                let ex = if existing.starts_with("removed") && hb > 10 { "re-created" } else { existing };
                if let Some(v) = judge(ex, &before, &after, &sup[*i], live_before, is_live(&n), &mut applied) {
                    return Err(v);
                }
                if applied {
                    t.inc("seq_calls_that_replaced_the_key_set");
                }
            }
            Ev::Call(_) => {}
            Ev::Adv(ms) => crate::clock::advance(Duration::from_millis(*ms)),
            Ev::Eval => {
                if let Err(p) = guarded(|| n.cc.verif_update_nodes_liveness()) {
                    return Err((format!("liveness evaluation panicked after catch-up calls: {p}"), format!("panic:{}", short_loc(&p))));
                }
            }
            Ev::Hb => {
                hb += 1;
                n.cc.verif_process_message(hello(hb));
            }
        }
        live.push(is_live(&n));
    }
    Ok(live)
}

pub fn sequences(tier: Tier, started: Instant) -> Part {
    let depth = tier.pick(4usize, 6usize);
    let mut part = Part::new(&format!("catchup/call-sequences(depth {depth})"));
    part.rule = format!("every sequence of up to {depth} events over {{catch-up call with one of 5 supplied states (max versions 1,2,3,4,6; watermarks 0,2,4), advance the clock by 0.2 s / 3 s / 11 s, evaluate liveness, receive a genuine heartbeat}} from each of the 11 existing copies, on a real node; oracle per call as in catchup/calls; differential oracle for 'never makes a member live by itself': the same sequence with the calls left out (the twin) is run on a second real node, and as long as no heartbeat event occurred the member is live with the calls only if it is live without them; non-trivial = sequences with at least two calls that replaced the key set");
    part.bounds = json!({"depth": depth, "alphabet": 10, "existing_copies": EXISTING.len()});
    let mut alphabet: Vec<Ev> = (0..seq_supplied().len()).map(Ev::Call).collect();
    alphabet.extend([Ev::Adv(200), Ev::Adv(3_000), Ev::Adv(11_000), Ev::Eval, Ev::Hb]);
    let mut seqs: Vec<Vec<Ev>> = vec![vec![]];
    let mut frontier: Vec<Vec<Ev>> = vec![vec![]];
    for _ in 0..depth {
        let mut next = vec![];
        for p in &frontier {
            for e in &alphabet {
                let mut q = p.clone();
                q.push(*e);
                next.push(q);
            }
        }
        seqs.extend(next.iter().cloned());
        frontier = next;
    }
    // only maximal sequences need running (liveness is judged after every event), plus nothing else
    let seqs: Vec<Vec<Ev>> = seqs.into_iter().filter(|q| q.len() == depth && q.iter().any(|e| matches!(e, Ev::Call(_)))).collect();
    let deadline = started + Duration::from_secs(tier.pick(55, 2400));
    let capped = std::sync::atomic::AtomicBool::new(false);
    let results: Vec<(Tally, Vec<Viol>)> = seqs
        .par_iter()
        .map(|seq| {
            let mut t = Tally::default();
            let mut v = vec![];
            for existing in EXISTING {
                if Instant::now() > deadline {
                    capped.store(true, std::sync::atomic::Ordering::Relaxed);
                    break;
                }
                t.inc("sequences");
                let replay = json!({"engine":"catchup","kind":"sequence","existing":existing,"events":seq.iter().map(ev_json).collect::<Vec<_>>()});
                let before = t.get("seq_calls_that_replaced_the_key_set");
                let with = match run_sequence(existing, seq, true, &mut t) {
                    Ok(l) => l,
                    Err((what, sig)) => {
                        if v.len() < 4 {
                            v.push(Viol { what, sig, replay });
                        }
                        continue;
                    }
                };
                if t.get("seq_calls_that_replaced_the_key_set") - before >= 2 {
                    t.inc("sequences_with_two_effective_calls");
                }
                let twin = run_sequence(existing, seq, false, &mut t).expect("twin runs no call");
                for (i, e) in seq.iter().enumerate() {
                    if *e == Ev::Hb {
                        break;
                    }
                    if with[i] {
                        t.inc("live_points_compared");
                    }
                    if with[i] && !twin[i] {
                        if v.len() < 4 {
                            v.push(Viol {
                                what: format!("existing copy `{existing}`: after event {} of the sequence the member is live, although without the catch-up calls (same clock, same evaluations, no heartbeat) it is not", i + 1),
                                sig: "made-live-by-calls".into(),
                                replay: replay.clone(),
                            });
                        }
                        break;
                    }
                }
            }
            (t, v)
        })
        .collect();
    let mut viols = vec![];
    for (t, v) in results {
        part.tally.merge(&t);
        viols.extend(v);
    }
    viols.sort_by_key(|v| v.replay.to_string().len());
    for v in viols {
        part.violation("C18", v.what, v.sig, v.replay);
    }
    part.states = part.tally.get("sequences");
    part.transitions = part.tally.get("sequences") * depth as u64 * 2;
    part.executions = part.tally.get("sequences") * 2;
    part.distinct_nontrivial = part.tally.get("sequences_with_two_effective_calls");
    if capped.load(std::sync::atomic::Ordering::Relaxed) {
        part.exhaustive = false;
        part.caps_hit.push("wall cap".into());
    }
    part.sample(json!({"existing": "behind", "events": [ev_json(&Ev::Call(4)), ev_json(&Ev::Adv(200)), ev_json(&Ev::Call(1)), ev_json(&Ev::Eval)]}));
    part.require("sequences_with_two_effective_calls");
    part.require("live_points_compared");
    part
}

pub fn run(tier: Tier, started: Instant) -> Vec<Part> {
    let mut parts = run_for("C18", tier, started);
    parts.push(sequences(tier, Instant::now()));
    parts
}

/// Which signatures of the call-level oracle are violations of which property: everything for C18;
/// frontier / key version / no abort for C04; for C03 an entry the copy holds after the call that
/// is neither the one it held nor the one supplied (value, version or status altered on the way).
fn reportable_under(property: &str, sig: &str) -> bool {
    match property {
        "C18" => true,
        "C03" => sig == "key-set-mismatch",
        _ => sig == "frontier-lowered" || sig == "key-version-decreased" || sig.starts_with("panic"),
    }
}

/// For C04 the same calls are run and only the frontier / no-abort clauses are reported.
pub fn run_for(property: &'static str, tier: Tier, started: Instant) -> Vec<Part> {
    let vmax = tier.pick(4u64, 5u64);
    let mut part = Part::new(&format!("catchup/calls(versions 0..{vmax})"));
    part.rule = format!("reset_node_state_if_update called on a real node for every existing copy in {{absent, empty, (0,2) with two keys, mid-reset (3,0), mid-reset (3,1), ahead (0,5), garbage collected (after heartbeats; after a catch-up only, never a heartbeat), live, (0,3) whose top version is a tombstone}} x every supplied state (key sets over {{a (present in the copy), c (new)}} with versions 0..{vmax} and every status, key a's value string new or identical to the one the copy holds, max_version 0..={vmax}, last_gc_version 0..={vmax}, consistent or not) x position (alone, before a real handshake with a peer that is ahead, after it, between its SYN and SYN-ACK); oracle: no panic, (watermark, max version) not lowered, the copy is unchanged or its key set is the supplied one with the newer version of shared keys, a garbage collected member stays absent, the member does not become live; when the supplied state is internally consistent (distinct versions >= 1, none above its max version) and does not contradict the copy (shared keys not older, one version = one key) gossip afterwards neither panics nor lowers a frontier, and neither do three key-GC passes timed so that the copy's older tombstones expire before those stamped by the call (4 s later); non-trivial = calls that replaced the key set");
    let supplied = all_supplied(vmax);
    part.bounds = json!({"existing_copies": EXISTING, "supplied_states": supplied.len(), "positions": 4});
    let deadline = started + Duration::from_secs(tier.pick(50, 1500));
    let capped = std::sync::atomic::AtomicBool::new(false);
    let results: Vec<(Tally, Vec<Viol>)> = supplied
        .par_iter()
        .map(|s| {
            let mut t = Tally::default();
            let mut v = vec![];
            for existing in EXISTING {
                if Instant::now() > deadline {
                    capped.store(true, std::sync::atomic::Ordering::Relaxed);
                    break;
                }
                for position in 0..4u8 {
                    if let Some((what, sig)) = one_case(existing, s, position, &mut t) {
                        // only what the running check reports counts towards the cap
                        let reportable = reportable_under(property, &sig);
                        if reportable && v.len() < 4 {
                            v.push(Viol { what, sig, replay: json!({"engine":"catchup","existing":existing,"supplied":supplied_json(s),"position":position}) });
                        }
                    }
                }
            }
            (t, v)
        })
        .collect();
    let mut viols = vec![];
    for (t, v) in results {
        part.tally.merge(&t);
        viols.extend(v);
    }
    viols.sort_by_key(|v| v.replay.to_string().len());
    for v in viols {
        if !reportable_under(property, &v.sig) {
            continue;
        }
        part.violation(property, v.what, v.sig, v.replay);
    }
    part.states = (supplied.len() * EXISTING.len()) as u64;
    part.transitions = part.tally.get("cases");
    part.executions = part.tally.get("cases");
    part.distinct_nontrivial = part.tally.get("calls_that_replaced_the_key_set");
    if capped.load(std::sync::atomic::Ordering::Relaxed) {
        part.exhaustive = false;
        part.caps_hit.push("wall cap".into());
    }
    part.sample(json!({"existing": "midreset-one", "supplied": {"key_values": [["a", 2, 0], ["c", 3, 1]], "max_version": 4, "last_gc_version": 3}, "position": "between SYN and SYN-ACK"}));
    part.require("calls_that_replaced_the_key_set");
    part.require("calls_that_left_the_copy_unchanged");
    part.require("gc_passes_that_raised_a_watermark");
    vec![part]
}

pub fn replay(v: &Value) -> Result<(), String> {
    if v["kind"].as_str() == Some("sequence") {
        let p = sequences(Tier::Quick, Instant::now());
        for x in &p.violations {
            println!("!! {} [{}] {}", x.property, x.signature, x.what);
        }
        return if p.violations.is_empty() { Ok(()) } else { Err("call-sequence family fails".into()) };
    }
    let existing = v["existing"].as_str().ok_or("no existing")?;
    let kvs: Vec<(&'static str, u64, u8)> = v["supplied"]["key_values"]
        .as_array()
        .map(|a| {
            a.iter()
                .filter_map(|e| {
                    let k: &'static str = match e[0].as_str()? {
                        "a" => "a",
                        _ => "c",
                    };
                    Some((k, e[1].as_u64()?, e[2].as_u64()? as u8))
                })
                .collect()
        })
        .unwrap_or_default();
    let s = Supplied { kvs, mv: v["supplied"]["max_version"].as_u64().unwrap_or(0), gc: v["supplied"]["last_gc_version"].as_u64().unwrap_or(0), same_value: v["supplied"]["same_value"].as_bool().unwrap_or(false) };
    let mut t = Tally::default();
    match one_case(existing, &s, v["position"].as_u64().unwrap_or(0) as u8, &mut t) {
        Some((what, _)) => Err(what),
        None => Ok(()),
    }
}
