//! `fd` — heartbeat histories against the failure detector (C10 completeness, C11 accuracy).

use std::time::{Duration, Instant};

use chitchat::FailureDetectorConfig;
use rayon::prelude::*;
use serde_json::{json, Value};

use crate::codec::{DigestEntry, Id, Msg};
use crate::node::{Node, NodeOpts};
use crate::real;
use crate::report::{Part, Tier};
use crate::util::{guarded, short_loc, Tally};

#[derive(Clone, Copy, Debug, PartialEq)]
pub struct FdCfg {
    pub phi: f64,
    pub window: usize,
    pub initial_ms: u64,
    pub max_ms: u64,
    /// the two "steady" inter-arrival times a <= b <= max_interval (0 = max/4 and max/2)
    pub a_over: u64,
    pub b_over: u64,
    /// dead-node grace period in ms (0 = practically infinite: the member is never removed)
    pub grace_ms: u64,
}

impl FdCfg {
    /// phi_threshold x max(max_interval, initial_interval), in ms (rounded up)
    pub fn bound_ms(&self) -> u64 {
        (self.phi * self.max_ms.max(self.initial_ms) as f64).ceil() as u64
    }
    pub fn a_ms(&self) -> u64 {
        if self.a_over > 0 {
            self.a_over
        } else {
            (self.max_ms / 4).max(1)
        }
    }
    pub fn b_ms(&self) -> u64 {
        if self.b_over > 0 {
            self.b_over
        } else {
            (self.max_ms / 2).max(1)
        }
    }
    pub fn json(&self) -> Value {
        json!({"phi_threshold": self.phi, "sampling_window_size": self.window, "initial_interval_ms": self.initial_ms, "max_interval_ms": self.max_ms, "a_ms": self.a_ms(), "b_ms": self.b_ms(), "dead_node_grace_ms": self.grace_ms})
    }
    pub fn from_json(v: &Value) -> Option<FdCfg> {
        Some(FdCfg { phi: v["phi_threshold"].as_f64()?, window: v["sampling_window_size"].as_u64()? as usize, initial_ms: v["initial_interval_ms"].as_u64()?, max_ms: v["max_interval_ms"].as_u64()?, a_over: v["a_ms"].as_u64().unwrap_or(0), b_over: v["b_ms"].as_u64().unwrap_or(0), grace_ms: v["dead_node_grace_ms"].as_u64().unwrap_or(0) })
    }
}

#[derive(Clone, Copy, Debug, PartialEq, Eq, Hash, PartialOrd, Ord)]
pub enum Ev {
    Fresh,
    FreshRelay,
    Equal,
    Lower,
    AdvA,
    AdvB,
    AdvMax,
    AdvMaxPlus,
    AdvBoundPlus,
    Eval,
    /// a heartbeat two below the highest value ever delivered (stale, from a lagging relay)
    Lower2,
    /// advance by the dead-node grace period + 1 ms (only used in root prefixes)
    AdvGracePlus,
    /// a delta that resets the observer's copy of the member (watermark raised, stored heartbeat
    /// back to 0); only used by the `with-copy-resets` part
    Reset,
    /// a delta (relayed by a third party) that advances the member's key-values by one version:
    /// data about a member is not evidence that it is alive
    Delta,
}

pub const ALPHABET: [Ev; 10] = [Ev::Fresh, Ev::FreshRelay, Ev::Equal, Ev::Lower, Ev::AdvA, Ev::AdvB, Ev::AdvMax, Ev::AdvMaxPlus, Ev::AdvBoundPlus, Ev::Eval];

impl Ev {
    pub fn is_stale_hb(self) -> bool {
        matches!(self, Ev::Equal | Ev::Lower | Ev::Lower2)
    }
    pub fn name(self) -> &'static str {
        match self {
            Ev::Fresh => "hb-fresh",
            Ev::FreshRelay => "hb-fresh-via-relay",
            Ev::Equal => "hb-equal",
            Ev::Lower => "hb-lower",
            Ev::AdvA => "advance-a",
            Ev::AdvB => "advance-b",
            Ev::AdvMax => "advance-max-interval",
            Ev::AdvMaxPlus => "advance-max-interval+1ms",
            Ev::AdvBoundPlus => "advance-bound+1ms",
            Ev::Eval => "eval",
            Ev::Lower2 => "hb-two-below",
            Ev::AdvGracePlus => "advance-dead-node-grace+1ms",
            Ev::Reset => "copy-reset-by-a-delta",
            Ev::Delta => "delta-advancing-the-member's-state",
        }
    }
    pub fn from_name(s: &str) -> Option<Ev> {
        ALPHABET.iter().copied().chain([Ev::Lower2, Ev::AdvGracePlus, Ev::Reset, Ev::Delta]).find(|e| e.name() == s)
    }
    pub fn advance_ms(self, c: &FdCfg) -> Option<u64> {
        Some(match self {
            Ev::AdvA => c.a_ms(),
            Ev::AdvB => c.b_ms(),
            Ev::AdvMax => c.max_ms,
            Ev::AdvMaxPlus => c.max_ms + 1,
            Ev::AdvBoundPlus => c.bound_ms() + 1,
            Ev::AdvGracePlus => c.grace_ms + 1,
            _ => return None,
        })
    }
}

fn x_id() -> Id {
    Id::v4("x", 1, 10_002)
}
fn relay_id() -> Id {
    Id::v4("relay", 1, 10_003)
}

pub struct Observer {
    pub node: Node,
    pub cfg: FdCfg,
    /// highest heartbeat value delivered so far
    pub highest: u64,
    /// number of strictly increasing values delivered
    pub fresh_count: u64,
    /// virtual time (ms) of the last strictly higher value
    pub last_fresh_at: Option<u64>,
    pub now: u64,
    pub relay_hb: u64,
    /// time of the last heartbeat that counts as an observation (every strictly higher value but
    /// the very first one, which only registers the member)
    pub last_observation_at: Option<u64>,
    /// inter-observation intervals <= max_interval recorded since the member was last found dead
    pub usable_intervals: u64,
    /// watermark of the last resetting delta
    pub reset_gc: u64,
    /// max version of the member's state as advanced by `Delta` events
    pub data_version: u64,
}

impl Observer {
    pub fn new(cfg: FdCfg) -> Observer {
        let fd = FailureDetectorConfig::new(cfg.phi, cfg.window, Duration::from_millis(cfg.max_ms), Duration::from_millis(cfg.initial_ms), if cfg.grace_ms == 0 { Duration::from_secs(100_000_000) } else { Duration::from_millis(cfg.grace_ms) });
        let node = Node::new(&Id::v4("obs", 1, 10_001), &NodeOpts { fd, ..Default::default() });
        Observer { node, cfg, highest: 0, fresh_count: 0, last_fresh_at: None, now: 0, relay_hb: 0, last_observation_at: None, usable_intervals: 0, reset_gc: 0, data_version: 0 }
    }

    fn deliver(&mut self, hb: u64, relay: bool) {
        let mut digest = vec![DigestEntry { id: x_id(), heartbeat: hb, gc: 0, mv: 0 }];
        if relay {
            self.relay_hb += 1;
            digest.insert(0, DigestEntry { id: relay_id(), heartbeat: self.relay_hb, gc: 0, mv: 0 });
        }
        let m = real::build_real(&Msg::Syn { digest, cluster_id: "c".into() }).unwrap();
        self.node.cc.verif_process_message(m);
    }

    /// Lets `ms` milliseconds pass (for schedules that need a span outside the event alphabet).
    pub fn advance_raw(&mut self, ms: u64) {
        crate::clock::advance(Duration::from_millis(ms));
        self.now += ms;
    }

    /// Applies one event. For Eval returns Some(live?) plus Some(violation) if an oracle fails.
    pub fn step(&mut self, ev: Ev) -> (Option<bool>, Option<(&'static str, String, String)>) {
        match ev {
            Ev::Fresh | Ev::FreshRelay => {
                self.highest += 1;
                self.fresh_count += 1;
                self.last_fresh_at = Some(self.now);
                if self.fresh_count >= 2 {
                    if let Some(t) = self.last_observation_at {
                        if self.now - t <= self.cfg.max_ms {
                            self.usable_intervals += 1;
                        }
                    }
                    self.last_observation_at = Some(self.now);
                }
                let hb = self.highest;
                self.deliver(hb, ev == Ev::FreshRelay);
            }
            Ev::Equal => {
                if self.highest > 0 {
                    let hb = self.highest;
                    self.deliver(hb, false);
                }
            }
            Ev::Lower => {
                if self.highest > 1 {
                    let hb = self.highest - 1;
                    self.deliver(hb, true);
                }
            }
            Ev::Lower2 => {
                if self.highest > 2 {
                    let hb = self.highest - 2;
                    self.deliver(hb, true);
                }
            }
            Ev::Delta => {
                if self.highest > 0 {
                    let from = self.data_version;
                    self.data_version += 1;
                    let ops = vec![crate::codec::Op::Node { id: x_id(), gc: self.reset_gc, from }, crate::codec::Op::Kv { key: format!("k{}", self.data_version), value: "v".into(), version: self.data_version, status: 0 }];
                    let m = real::build_real(&Msg::Ack { ops }).unwrap();
                    self.node.cc.verif_process_message(m);
                }
            }
            Ev::Reset => {
                if self.highest > 0 {
                    self.data_version = 0;
                    self.reset_gc += 1;
                    let m = real::build_real(&Msg::Ack { ops: vec![crate::codec::Op::Node { id: x_id(), gc: self.reset_gc, from: 0 }] }).unwrap();
                    self.node.cc.verif_process_message(m);
                }
            }
            Ev::Eval => {
                self.node.cc.verif_update_nodes_liveness();
                let id = real::to_real_id(&x_id());
                let live = self.node.cc.live_nodes().any(|l| *l == id);
                let dead = self.node.cc.dead_nodes().any(|l| *l == id);
                let known = self.node.cc.node_state(&id).is_some();
                if live && dead {
                    return (Some(live), Some(("C10", "member both live and dead".into(), "live-dead-overlap".into())));
                }
                if known && !live && !dead {
                    return (Some(live), Some(("C10", "known member neither live nor dead after an evaluation".into(), "unclassified".into())));
                }
                if self.fresh_count < 2 && live {
                    return (Some(live), Some(("C11", format!("member live after only {} strictly increasing heartbeat values", self.fresh_count), "live-without-evidence".into())));
                }
                // fewer than two usable observations (= no interval <= max_interval since it was last
                // found dead): never live
                if self.usable_intervals == 0 && live {
                    return (Some(live), Some(("C10", "member reported live although no two heartbeat observations at most max_interval apart exist since it was last found dead".into(), "live-without-usable-observations".into())));
                }
                if !live {
                    self.usable_intervals = 0;
                }
                if let Some(t) = self.last_fresh_at {
                    // (a member that was removed after the dead-node grace period is in neither set: that
                    // is the strongest form of "not live")
                    if self.now - t > self.cfg.bound_ms() && (live || (known && !dead)) {
                        return (
                            Some(live),
                            Some(("C10", format!("no fresh heartbeat for {} ms > bound {} ms but the member is {}", self.now - t, self.cfg.bound_ms(), if live { "live" } else { "not dead" }), "silent-member-not-dead".into())),
                        );
                    }
                }
                return (Some(live), None);
            }
            adv => {
                let ms = adv.advance_ms(&self.cfg).unwrap();
                crate::clock::advance(Duration::from_millis(ms));
                self.now += ms;
            }
        }
        (None, None)
    }
}

pub struct Viol {
    pub prop: &'static str,
    pub what: String,
    pub sig: String,
    pub replay: Value,
}

fn replay_json(cfg: &FdCfg, seq: &[Ev], kind: &str) -> Value {
    json!({"engine":"fd","kind":kind,"config":cfg.json(),"events":seq.iter().map(|e| e.name()).collect::<Vec<_>>()})
}

/// Runs a sequence; returns the vector of Eval verdicts, or the first violation.
pub fn run_seq(cfg: &FdCfg, seq: &[Ev]) -> Result<Vec<bool>, (&'static str, String, String)> {
    let mut o = Observer::new(*cfg);
    let mut verdicts = vec![];
    for ev in seq {
        let r = guarded(|| o.step(*ev));
        match r {
            Err(p) => return Err(("C10", format!("panic: {p}"), format!("panic:{}", short_loc(&p)))),
            Ok((v, viol)) => {
                if let Some(v) = v {
                    verdicts.push(v);
                }
                if let Some(x) = viol {
                    return Err(x);
                }
            }
        }
    }
    Ok(verdicts)
}

/// All sequences up to `depth` that contain at least one Eval as last event (a sequence not ending
/// in Eval has the same verdicts as its longest prefix ending in Eval).
/// Non-initial roots (deterministic prefixes) from which the exhaustive enumeration is repeated.
pub fn roots() -> Vec<(&'static str, Vec<Ev>)> {
    vec![
        // (only used with a finite dead-node grace period) the member was live, died, was removed
        ("removed-after-grace", vec![Ev::Fresh, Ev::Fresh, Ev::AdvA, Ev::Fresh, Ev::Eval, Ev::AdvBoundPlus, Ev::Eval, Ev::AdvGracePlus, Ev::Eval]),
        ("initial", vec![]),
        ("live", vec![Ev::Fresh, Ev::Fresh, Ev::AdvA, Ev::Fresh, Ev::Eval]),
        ("died-after-being-live", vec![Ev::Fresh, Ev::Fresh, Ev::AdvA, Ev::Fresh, Ev::Eval, Ev::AdvBoundPlus, Ev::Eval]),
        ("heartbeats-while-dead-then-dead-again", vec![Ev::Fresh, Ev::Eval, Ev::Fresh, Ev::AdvA, Ev::Fresh, Ev::AdvBoundPlus, Ev::Eval]),
    ]
}

pub fn exhaustive(cfg: &FdCfg, root: &[Ev], depth: usize, want: &str, deadline: Instant) -> (Tally, Vec<Viol>, bool) {
    exhaustive_over(cfg, root, depth, want, deadline, None)
}

pub fn exhaustive_over(cfg: &FdCfg, root: &[Ev], depth: usize, want: &str, deadline: Instant, alphabet_override: Option<&[Ev]>) -> (Tally, Vec<Viol>, bool) {
    let capped = std::sync::atomic::AtomicBool::new(false);
    // from the non-initial roots the alphabet also has the heartbeat two below the highest
    let mut alphabet: Vec<Ev> = ALPHABET.to_vec();
    if !root.is_empty() {
        alphabet.push(Ev::Lower2);
    }
    if let Some(a) = alphabet_override {
        alphabet = a.to_vec();
    }
    let alphabet = &alphabet;
    // parallel over the first two events after the root
    let prefixes: Vec<Vec<Ev>> = alphabet.iter().flat_map(|a| alphabet.iter().map(move |b| { let mut v = root.to_vec(); v.push(*a); v.push(*b); v })).collect();
    let depth = depth + root.len();
    let results: Vec<(Tally, Vec<Viol>)> = prefixes
        .par_iter()
        .map(|prefix| {
            let mut t = Tally::default();
            let mut v: Vec<Viol> = vec![];
            let mut stack = vec![prefix.clone()];
            while let Some(seq) = stack.pop() {
                if Instant::now() > deadline {
                    capped.store(true, std::sync::atomic::Ordering::Relaxed);
                    break;
                }
                if seq.len() < depth {
                    for e in alphabet.iter().rev() {
                        let mut s = seq.clone();
                        s.push(*e);
                        stack.push(s);
                    }
                }
                if *seq.last().unwrap() != Ev::Eval {
                    continue;
                }
                t.inc("histories");
                match run_seq(cfg, &seq) {
                    Err((p, what, sig)) => {
                        // (the cap is per property: violations attributed to the other property of this
                        // engine must not crowd out the ones the running check reports)
                        if v.iter().filter(|x| x.prop == p).count() < 3 {
                            v.push(Viol { prop: p, what: format!("{what} after {:?}", seq.iter().map(|e| e.name()).collect::<Vec<_>>()), sig, replay: replay_json(cfg, &seq, "exhaustive") });
                        }
                    }
                    Ok(verdicts) => {
                        if verdicts.iter().any(|x| *x) {
                            t.inc("histories_with_a_live_verdict");
                        }
                        if verdicts.windows(2).any(|w| w[0] && !w[1]) {
                            t.inc("histories_live_then_dead");
                        }
                        // C11 differential: dropping every equal / lower heartbeat changes no verdict
                        // (not for histories with a copy reset: there an equal heartbeat restores the stored
                        // value the reset wiped, so that the next fresh one counts — which is right)
                        if want == "C11" && seq.iter().any(|e| e.is_stale_hb()) && !seq.contains(&Ev::Reset) {
                            t.inc("differential_pairs");
                            let stripped: Vec<Ev> = seq.iter().copied().filter(|e| !e.is_stale_hb()).collect();
                            match run_seq(cfg, &stripped) {
                                Ok(v2) => {
                                    if v2 != verdicts && v.len() < 3 {
                                        v.push(Viol {
                                            prop: "C11",
                                            what: format!("equal/lower heartbeats changed the verdicts: {:?} gives {verdicts:?}, without them {v2:?}", seq.iter().map(|e| e.name()).collect::<Vec<_>>()),
                                            sig: "stale-heartbeat-counted".into(),
                                            replay: replay_json(cfg, &seq, "differential"),
                                        });
                                    }
                                }
                                Err(_) => {}
                            }
                        }
                    }
                }
            }
            (t, v)
        })
        .collect();
    let mut tally = Tally::default();
    let mut viols = vec![];
    for (t, v) in results {
        tally.merge(&t);
        viols.extend(v);
    }
    (tally, viols, capped.load(std::sync::atomic::Ordering::Relaxed))
}

/// Periodic schedules unrolled to `arrivals` fresh heartbeats, followed by a silence longer than
/// the bound and an evaluation (window wrap, incremental-sum drift).
pub fn periodic(cfg: &FdCfg, period: usize, arrivals: u64, deadline: Instant) -> (Tally, Vec<Viol>, bool) {
    let capped = std::sync::atomic::AtomicBool::new(false);
    // schedules: all sequences of length 1..=period over {Fresh, Equal, AdvA, AdvB, AdvMax, AdvMaxPlus, Eval}
    let alpha = [Ev::Fresh, Ev::Equal, Ev::AdvA, Ev::AdvB, Ev::AdvMax, Ev::AdvMaxPlus, Ev::Eval];
    let mut schedules: Vec<Vec<Ev>> = vec![];
    let mut layer: Vec<Vec<Ev>> = vec![vec![]];
    for _ in 0..period {
        let mut next = vec![];
        for s in &layer {
            for e in alpha {
                let mut s2 = s.clone();
                s2.push(e);
                next.push(s2);
            }
        }
        schedules.extend(next.iter().cloned());
        layer = next;
    }
    // keep schedules with at least one fresh heartbeat and one advance
    schedules.retain(|s| s.contains(&Ev::Fresh) && s.iter().any(|e| e.advance_ms(cfg).is_some()));
    let results: Vec<(Tally, Vec<Viol>)> = schedules
        .par_iter()
        .map(|sched| {
            let mut t = Tally::default();
            let mut v = vec![];
            if Instant::now() > deadline {
                capped.store(true, std::sync::atomic::Ordering::Relaxed);
                return (t, v);
            }
            t.inc("schedules");
            let mut o = Observer::new(*cfg);
            let mut steps = 0u64;
            let mut evs = 0u64;
            let res = guarded(|| {
                'outer: loop {
                    for e in sched {
                        let (verdict, viol) = o.step(*e);
                        steps += 1;
                        if verdict.is_some() {
                            evs += 1;
                        }
                        if let Some(x) = viol {
                            return Some((x, steps));
                        }
                        if o.fresh_count >= arrivals {
                            break 'outer;
                        }
                    }
                }
                // final silence: the member must be dead afterwards whatever the history was
                let _ = o.step(Ev::AdvBoundPlus);
                let (_, viol) = o.step(Ev::Eval);
                viol.map(|x| (x, steps + 2))
            });
            t.add("steps", steps);
            t.add("evaluations", evs + 1);
            match res {
                Err(p) => v.push(Viol { prop: "C10", what: format!("panic: {p}"), sig: format!("panic:{}", short_loc(&p)), replay: json!({"engine":"fd","kind":"periodic","config":cfg.json(),"schedule":sched.iter().map(|e| e.name()).collect::<Vec<_>>(),"arrivals":arrivals}) }),
                Ok(Some(((p, what, sig), at))) => v.push(Viol { prop: p, what: format!("{what} (periodic schedule {:?}, step {at})", sched.iter().map(|e| e.name()).collect::<Vec<_>>()), sig, replay: json!({"engine":"fd","kind":"periodic","config":cfg.json(),"schedule":sched.iter().map(|e| e.name()).collect::<Vec<_>>(),"arrivals":arrivals}) }),
                Ok(None) => {}
            }
            (t, v)
        })
        .collect();
    let mut tally = Tally::default();
    let mut viols = vec![];
    for (t, v) in results {
        tally.merge(&t);
        viols.extend(v);
    }
    (tally, viols, capped.load(std::sync::atomic::Ordering::Relaxed))
}

/// Steady arrivals (C11 second sentence): fresh heartbeats every d in {a, b} (all patterns of
/// period <= 3), evaluations right after each advance; phi_threshold = b / min(a, initial) (+1e-6).
pub fn steady(base: &FdCfg, arrivals: u64) -> (Tally, Vec<Viol>) {
    let mut tally = Tally::default();
    let mut viols = vec![];
    // (a, b) with a <= b <= max_interval, including b = max_interval exactly
    for (a, b) in [(base.max_ms / 4, base.max_ms / 2), (base.max_ms / 2, base.max_ms), (base.max_ms, base.max_ms)] {
        let (t, v) = steady_ab(&FdCfg { a_over: a.max(1), b_over: b.max(1), ..*base }, arrivals, false);
        tally.merge(&t);
        viols.extend(v);
        // exactly ON the bound (phi_threshold == b / min(a, initial), which the statement includes):
        // only where the arithmetic is exact in f64 — a == initial_interval, whole seconds — so that
        // phi == threshold is reached exactly (all recorded intervals equal to a, evaluation b after
        // the last heartbeat) and every other evaluation is below the threshold by at least 1/1005
        if a == base.initial_ms && a % 1000 == 0 && b % 1000 == 0 && a > 0 {
            let (t, v) = steady_ab(&FdCfg { a_over: a, b_over: b, ..*base }, arrivals, true);
            tally.merge(&t);
            viols.extend(v);
            tally.inc("configurations_exactly_on_the_bound");
        }
    }
    (tally, viols)
}

fn steady_ab(base: &FdCfg, arrivals: u64, exact: bool) -> (Tally, Vec<Viol>) {
    let (a, b) = (base.a_ms(), base.b_ms());
    let thr = (b as f64 / a.min(base.initial_ms) as f64) * if exact { 1.0 } else { 1.0 + 1e-6 };
    let cfg = FdCfg { phi: thr, ..*base };
    let mut tally = Tally::default();
    let mut viols = vec![];
    // interval patterns over {a, b} of period 1..=3; evaluation placement: after the advance
    // (elapsed = interval), and additionally mid-way is covered by the a < b mix
    let mut patterns: Vec<Vec<bool>> = vec![];
    for p in 1..=3usize {
        for mask in 0..(1u32 << p) {
            patterns.push((0..p).map(|i| mask & (1 << i) != 0).collect());
        }
    }
    // returning member: the window is filled (and wrapped) by a first life, the member is found dead
    // after a long silence, then resumes steady heartbeats: once two fresh values arrived after the
    // return (the first one only restarts the clock) every evaluation must say live again
    // `late` = the member comes back in the second half of a finite dead-node grace period (it is
    // then scheduled for deletion: excluded from what the node sends, but its heartbeats still count)
    for (pat, late) in patterns.iter().cloned().flat_map(|p| [(p.clone(), false), (p, true)]) {
        tally.inc("schedules");
        let cfg = if late { FdCfg { grace_ms: 4 * cfg.bound_ms(), ..cfg } } else { cfg };
        let mut o = Observer::new(cfg);
        let mut evals = 0u64;
        let mut bad = None;
        let first_life = (cfg.window as u64).min(1_100) + 3;
        let res = guarded(|| {
            for _ in 0..first_life {
                o.step(Ev::Fresh);
                o.step(Ev::AdvA);
            }
            let (v0, _) = o.step(Ev::Eval);
            if v0 != Some(true) {
                bad = Some(("C11", format!("steady heartbeats every {a} ms not live after {first_life} arrivals"), "steady-member-flagged".to_string()));
                return;
            }
            o.step(Ev::AdvBoundPlus);
            o.step(Ev::Eval);
            if late {
                o.advance_raw(cfg.grace_ms / 2 + 1);
                let (v1, _) = o.step(Ev::Eval);
                if v1 != Some(false) {
                    bad = Some(("C11", "MACHINERY: the member is not dead after the long silence".to_string(), "machinery".to_string()));
                    return;
                }
            }
            let mut since_return = 0u64;
            let mut i = 0usize;
            while since_return < arrivals.min(60) {
                o.step(Ev::Fresh);
                since_return += 1;
                let adv = if pat[i % pat.len()] { Ev::AdvB } else { Ev::AdvA };
                i += 1;
                o.step(adv);
                let (verdict, viol) = o.step(Ev::Eval);
                evals += 1;
                if let Some(x) = viol {
                    bad = Some((x.0, x.1, x.2));
                    return;
                }
                if since_return >= 2 && verdict == Some(false) {
                    bad = Some(("C11", format!("a member that returned after a silence and sends steady heartbeats every {a}/{b} ms (pattern {pat:?}) is flagged dead at its arrival {since_return} after the return (window {}, first life of {first_life} arrivals, phi_threshold {thr}{})", cfg.window, if late { ", returning in the second half of the dead-node grace period" } else { "" }), "returning-steady-member-flagged".into()));
                    return;
                }
            }
        });
        tally.add("evaluations", evals);
        let replay = json!({"engine":"fd","kind":"steady","config":cfg.json(),"pattern":pat,"arrivals":arrivals,"returning":true,"late":late});
        if let Err(p) = res {
            viols.push(Viol { prop: "C11", what: format!("panic: {p}"), sig: format!("panic:{}", short_loc(&p)), replay });
        } else if let Some((p, what, sig)) = bad {
            viols.push(Viol { prop: p, what, sig, replay });
        }
    }
    // `catchup`: the application feeds a fetched state of the member through the catch-up entry point
    // right after its 5th and 9th heartbeat (the statement's third sentence holds whatever else the
    // node is asked to do between heartbeats; the entry point must not disturb the detector)
    for (pat, catchup) in patterns.iter().cloned().flat_map(|p| [(p.clone(), false), (p, true)]) {
        tally.inc("schedules");
        let mut o = Observer::new(cfg);
        let mut i = 0usize;
        let mut evals = 0u64;
        let mut bad = None;
        let res = guarded(|| {
            while o.fresh_count < arrivals {
                o.step(Ev::Fresh);
                if catchup && (o.fresh_count == 5 || o.fresh_count == 9) {
                    let ver = o.fresh_count;
                    let kvs = vec![("fetched".to_string(), chitchat::VersionedValue { value: format!("v{ver}"), version: ver, status: chitchat::DeletionStatus::Set })];
                    o.node.cc.reset_node_state_if_update(&real::to_real_id(&x_id()), kvs.into_iter(), ver, 0);
                }
                let adv = if pat[i % pat.len()] { Ev::AdvB } else { Ev::AdvA };
                i += 1;
                o.step(adv);
                let (verdict, viol) = o.step(Ev::Eval);
                evals += 1;
                if let Some(x) = viol {
                    bad = Some((x.0, x.1, x.2));
                    return;
                }
                // the first value only registers the member, the second starts the clock, the third
                // closes the first interval: from then on every evaluation must say live
                if o.fresh_count >= 3 && verdict == Some(false) {
                    bad = Some(("C11", format!("steady heartbeats every {a}/{b} ms (pattern {pat:?}{}) flagged dead at arrival {} with phi_threshold {thr}", if catchup { ", catch-up calls after the 5th and 9th heartbeat" } else { "" }, o.fresh_count), "steady-member-flagged".into()));
                    return;
                }
            }
        });
        tally.add("evaluations", evals);
        let replay = json!({"engine":"fd","kind":"steady","config":cfg.json(),"pattern":pat,"arrivals":arrivals,"catchup":catchup});
        if let Err(p) = res {
            viols.push(Viol { prop: "C11", what: format!("panic: {p}"), sig: format!("panic:{}", short_loc(&p)), replay });
        } else if let Some((p, what, sig)) = bad {
            viols.push(Viol { prop: p, what, sig, replay });
        }
    }
    (tally, viols)
}

/// Two lives and a final silence: a first life of n1 arrivals every d1, a silence beyond the bound
/// (the member is found dead: the window is reset), a second life of n2 arrivals every d2, then a
/// silence of bound + 1 ms: the member must be dead — whatever the first life left behind in the
/// detector's buffers. All of C10's oracles apply at every evaluation on the way.
pub fn two_lives(cfg: &FdCfg) -> (Tally, Vec<Viol>) {
    let mut tally = Tally::default();
    let mut viols = vec![];
    let ds = [cfg.a_ms(), cfg.b_ms(), cfg.max_ms];
    for &d1 in &ds {
        for &n1 in &[3u64, 10, 70, 700, 1_100] {
            for &d2 in &ds {
                for &n2 in &[1u64, 2, 3, 63, 64, 65, 130] {
                    tally.inc("schedules");
                    let mut o = Observer::new(*cfg);
                    let mut bad: Option<(&'static str, String, String)> = None;
                    let res = guarded(|| {
                        let run = |o: &mut Observer, n: u64, d: u64| -> Option<(&'static str, String, String)> {
                            for _ in 0..n {
                                o.step(Ev::Fresh);
                                o.advance_raw(d);
                                if let (_, Some(x)) = o.step(Ev::Eval) {
                                    return Some(x);
                                }
                            }
                            None
                        };
                        if let Some(x) = run(&mut o, n1, d1) {
                            bad = Some(x);
                            return;
                        }
                        o.step(Ev::AdvBoundPlus);
                        if let (_, Some(x)) = o.step(Ev::Eval) {
                            bad = Some(x);
                            return;
                        }
                        if let Some(x) = run(&mut o, n2, d2) {
                            bad = Some(x);
                            return;
                        }
                        o.step(Ev::AdvBoundPlus);
                        if let (_, Some(x)) = o.step(Ev::Eval) {
                            bad = Some(x);
                        }
                    });
                    tally.add("evaluations", n1 + n2 + 2);
                    let replay = json!({"engine":"fd","kind":"two-lives","config":cfg.json(),"first_life":[n1,d1],"second_life":[n2,d2]});
                    if let Err(p) = res {
                        viols.push(Viol { prop: "C10", what: format!("panic: {p}"), sig: format!("panic:{}", short_loc(&p)), replay });
                    } else if let Some((p, what, sig)) = bad {
                        viols.push(Viol { prop: p, what: format!("{what} (first life: {n1} arrivals every {d1} ms; found dead; second life: {n2} arrivals every {d2} ms; final silence of bound + 1 ms; window {})", cfg.window), sig, replay });
                    }
                }
            }
        }
    }
    (tally, viols)
}

/// The deadline clause with other traffic about the member during its silence: after a live phase
/// the member falls silent; meanwhile relays deliver deltas advancing its key-values and / or a
/// delta resets the observer's copy; no heartbeat of any kind arrives. After bound + 1 ms the
/// member must be dead: data about a member is no evidence of life, and a reset must not take the
/// member out of the detector's sight.
pub fn silence_with_traffic(cfg: &FdCfg) -> (Tally, Vec<Viol>) {
    let mut tally = Tally::default();
    let mut viols = vec![];
    let step = cfg.a_ms();
    for &n1 in &[3u64, 10, 70] {
        for traffic in ["reset-then-silence", "deltas-during-silence", "reset-and-deltas", "silence-only"] {
            tally.inc("schedules");
            let mut o = Observer::new(*cfg);
            let mut bad: Option<(&'static str, String, String)> = None;
            let res = guarded(|| {
                for _ in 0..n1 {
                    o.step(Ev::Fresh);
                    o.advance_raw(step);
                    if let (_, Some(x)) = o.step(Ev::Eval) {
                        bad = Some(x);
                        return;
                    }
                }
                if traffic.starts_with("reset") {
                    o.step(Ev::Reset);
                }
                let mut waited = 0u64;
                while waited <= cfg.bound_ms() {
                    if traffic.contains("deltas") {
                        o.step(Ev::Delta);
                    }
                    o.advance_raw(step);
                    waited += step;
                    if let (_, Some(x)) = o.step(Ev::Eval) {
                        bad = Some(x);
                        return;
                    }
                }
                o.advance_raw(1);
                if let (_, Some(x)) = o.step(Ev::Eval) {
                    bad = Some(x);
                }
            });
            tally.add("evaluations", n1 + cfg.bound_ms() / step + 2);
            let replay = json!({"engine":"fd","kind":"silence-with-traffic","config":cfg.json(),"live_phase":n1,"traffic":traffic});
            if let Err(p) = res {
                viols.push(Viol { prop: "C10", what: format!("panic: {p}"), sig: format!("panic:{}", short_loc(&p)), replay });
            } else if let Some((p, what, sig)) = bad {
                viols.push(Viol { prop: p, what: format!("{what} (live phase of {n1} heartbeats every {step} ms, then silence with traffic `{traffic}`; window {})", cfg.window), sig, replay });
            }
        }
    }
    (tally, viols)
}

pub fn grid(tier: Tier) -> Vec<FdCfg> {
    let phis: Vec<f64> = tier.pick(vec![0.5, 2.0, 8.0], vec![0.5, 1.0, 2.0, 8.0, 16.0]);
    let windows: Vec<usize> = tier.pick(vec![1, 3, 1000], vec![1, 2, 3, 1000]);
    let ivs: Vec<(u64, u64)> = tier.pick(vec![(1_000, 2_000), (10_000, 1_000)], vec![(1_000, 2_000), (100, 10_000), (5_000, 10_000), (10_000, 1_000)]);
    let mut out = vec![];
    for phi in &phis {
        for w in &windows {
            for (i, m) in &ivs {
                out.push(FdCfg { phi: *phi, window: *w, initial_ms: *i, max_ms: *m, a_over: 0, b_over: 0, grace_ms: 0 });
            }
        }
    }
    out
}

pub fn run(property: &'static str, tier: Tier, started: Instant) -> Vec<Part> {
    let secs = |s: u64| started + Duration::from_secs(s);
    let cfgs = grid(tier);
    let depth = tier.pick(7usize, 8usize);
    let mut parts = vec![];

    let mut e = Part::new(&format!("fd/exhaustive(depth<={depth})"));
    e.rule = format!("one real observer node, one member whose heartbeats arrive in crafted SYN digests; every event sequence of length <= {depth} ending in an evaluation over {{fresh heartbeat, fresh via a relay's digest, equal, lower, advance a / b / max_interval / max_interval+1ms / bound+1ms, evaluate}} for every configuration of the grid (phi x window x (initial, max interval)), from the initial state and (two events shallower) from three non-initial roots: a live member, a member that died after being live, a member that received heartbeats while dead and was found dead again, a member that was removed after the dead-node grace period (finite grace; alphabet extended with the heartbeat two below the highest); oracle at every evaluation: never live without two observations at most max_interval apart since it was last found dead, live and dead disjoint and exhaustive, never live with fewer than two strictly increasing values, dead whenever the last strictly higher value is older than phi x max(max_interval, initial_interval); for C11 additionally every history containing equal/lower heartbeats is re-run without them and must give the same verdicts; non-trivial = histories with at least one live verdict");
    e.bounds = json!({"configs": cfgs.iter().map(|c| c.json()).collect::<Vec<_>>(), "depth": depth, "alphabet": ALPHABET.iter().map(|x| x.name()).collect::<Vec<_>>()});
    let mut viols = vec![];
    let ncfg = cfgs.len() as u64;
    for (i, cfg) in cfgs.iter().enumerate() {
        for (name, root) in roots().iter() {
            // the full depth from the initial state, depth - 2 from the non-initial roots; the
            // "removed" root runs with a finite dead-node grace period (3 x bound)
            let d = if root.is_empty() { depth } else { depth - 2 };
            let cfg = &if *name == "removed-after-grace" { FdCfg { grace_ms: 3 * cfg.bound_ms(), ..*cfg } } else { *cfg };
            let (t, v, capped) = exhaustive(cfg, root, d, property, secs(tier.pick(150, 3000) * (i as u64 + 1) / ncfg));
            e.tally.merge(&t);
            viols.extend(v);
            if capped {
                e.exhaustive = false;
                if e.caps_hit.is_empty() {
                    e.caps_hit.push("wall cap on at least one configuration".into());
                }
            }
        }
    }
    push(&mut e, viols, property);
    e.states = e.tally.get("histories");
    e.transitions = e.tally.get("histories") * depth as u64;
    e.executions = e.tally.get("histories") + e.tally.get("differential_pairs");
    e.distinct_nontrivial = e.tally.get("histories_with_a_live_verdict");
    e.sample(json!({"config": cfgs[0].json(), "events": ["hb-fresh", "hb-fresh", "advance-a", "hb-fresh-via-relay", "advance-bound+1ms", "eval"]}));
    e.require("histories_with_a_live_verdict");
    e.require("histories_live_then_dead");
    parts.push(e);

    // Histories in which a delta resets the observer's copy of the member (the stored heartbeat goes
    // back to 0) lie outside C10's quantifier ("heartbeat arrival histories"), and on the unchanged code
    // a reset lets already-seen values be reported once more (observation O-6 in DESIGN.md): the
    // observation-counting and deadline oracles of C10 do not apply to them. Under C11 the part keeps
    // the one oracle that holds with resets: never live with fewer than two strictly increasing values
    // (with a single value ever delivered, nothing is ever reported to the detector).
    if property == "C11" {
        let d = tier.pick(6usize, 8usize);
        let alpha = [Ev::Fresh, Ev::Equal, Ev::Lower, Ev::Reset, Ev::Delta, Ev::AdvA, Ev::AdvMaxPlus, Ev::Eval];
        let mut r = Part::new(&format!("fd/with-copy-resets(depth<={d})"));
        r.rule = format!("as fd/exhaustive, over the alphabet {{fresh, equal, lower, a delta that resets the observer's copy of the member (stored heartbeat back to 0), a relayed delta that advances the member's key-values, advance a, advance max_interval+1ms, evaluate}}, every sequence of length <= {d} ending in an evaluation, two configurations (window 3 and 1000); only the oracle that holds across resets is reported: never live with fewer than two strictly increasing heartbeat values ever delivered (a reset lets already-seen values be reported once more, so observation counts, deadlines and the differential re-run do not apply)");
        let mut viols = vec![];
        for cfg in cfgs.iter().filter(|c| c.phi == 2.0 && c.initial_ms == 1_000 && c.window != 1) {
            let (t, v, capped) = exhaustive_over(cfg, &[], d, property, Instant::now() + Duration::from_secs(tier.pick(10, 900)), Some(&alpha));
            r.tally.merge(&t);
            viols.extend(v);
            if capped {
                r.exhaustive = false;
                r.caps_hit.push("wall cap".into());
            }
        }
        push(&mut r, viols, property);
        r.states = r.tally.get("histories");
        r.transitions = r.tally.get("histories") * d as u64;
        r.executions = r.tally.get("histories");
        r.distinct_nontrivial = r.tally.get("histories_with_a_live_verdict");
        r.sample(json!(["hb-fresh", "copy-reset-by-a-delta", "hb-equal", "eval"]));
        r.require("histories_with_a_live_verdict");
        parts.push(r);
    }

    let period = tier.pick(3usize, 4usize);
    let arrivals = tier.pick(300u64, 2_000u64);
    let mut p = Part::new(&format!("fd/periodic(period<={period},arrivals={arrivals})"));
    p.rule = format!("every periodic schedule of period <= {period} over {{fresh, equal, advance a / b / max_interval / max_interval+1ms, evaluate}} containing a fresh heartbeat and an advance, unrolled until {arrivals} fresh heartbeats arrived (sampling window wraps, incremental sum), then a silence of bound+1ms and an evaluation; windows 1, 2 or 3 and 1000; same oracle at every evaluation");
    let pcfgs: Vec<FdCfg> = cfgs.iter().copied().filter(|c| tier == Tier::Thorough || c.phi == 2.0).collect();
    p.bounds = json!({"configs": pcfgs.len()});
    let mut viols = vec![];
    for cfg in &pcfgs {
        let (t, v, capped) = periodic(cfg, period, arrivals, if tier == Tier::Quick { Instant::now() + Duration::from_secs(60) } else { secs(3400) });
        p.tally.merge(&t);
        viols.extend(v);
        if capped {
            p.exhaustive = false;
            if p.caps_hit.is_empty() {
                p.caps_hit.push("wall cap".into());
            }
        }
    }
    push(&mut p, viols, property);
    p.states = p.tally.get("schedules");
    p.transitions = p.tally.get("steps");
    p.executions = p.tally.get("schedules");
    p.distinct_nontrivial = p.tally.get("schedules");
    p.sample(json!({"schedule": ["hb-fresh", "advance-a", "eval"], "arrivals": arrivals}));
    parts.push(p);

    {
        let mut t2 = Part::new("fd/two-lives");
        t2.rule = "a first life of n1 in {3, 10, 70, 700, 1100} arrivals every d1, a silence beyond the bound (found dead: the sampling window is reset), a second life of n2 in {1, 2, 3, 63, 64, 65, 130} arrivals every d2, then a silence of bound + 1 ms; d1, d2 in {max/4, max/2, max_interval}; an evaluation after every arrival; same oracle at every evaluation — in particular the member must be dead after the final silence, whatever the first life left behind; configurations with phi = 2 of the grid (windows 1, 3, 1000); plus: a live phase, then a silence of bound + 1 ms during which relayed deltas advance the member's key-values and / or a delta resets the observer's copy (no heartbeat of any kind): dead required at the end".into();
        let mut viols = vec![];
        for cfg in cfgs.iter().filter(|c| c.phi == 2.0) {
            let (t, v) = two_lives(cfg);
            t2.tally.merge(&t);
            viols.extend(v);
        }
        for cfg in cfgs.iter().filter(|c| c.phi == 2.0) {
            let (t, v) = silence_with_traffic(cfg);
            t2.tally.merge(&t);
            viols.extend(v);
        }
        push(&mut t2, viols, property);
        t2.states = t2.tally.get("schedules");
        t2.transitions = t2.tally.get("evaluations");
        t2.executions = t2.tally.get("schedules");
        t2.distinct_nontrivial = t2.tally.get("schedules");
        t2.sample(json!({"first_life": [700, "max_interval"], "second_life": [65, "max/4"]}));
        parts.push(t2);
    }

    if property == "C11" {
        let mut s = Part::new("fd/steady-arrivals");
        s.rule = "fresh heartbeats at intervals drawn from {a, b} (every pattern of period <= 3, a = max_interval/4, b = max_interval/2), an evaluation after every interval, phi_threshold = b / min(a, initial_interval) x (1 + 1e-6) — and exactly b / min(a, initial_interval) where a = initial_interval in whole seconds, so that the arithmetic is exact —, for every (window, initial, max) of the grid: from the third value on every evaluation must say live (also when the application feeds a fetched state of the member through the catch-up entry point after the 5th and 9th heartbeat); and the returning-member variant: a first life long enough to wrap the sampling window, a silence beyond the bound (found dead), then steady heartbeats again: from the second value after the return on, every evaluation must say live; the same with a finite dead-node grace period G = 4 x bound and a return after more than G/2 of being dead (member scheduled for deletion)".into();
        let mut viols = vec![];
        let mut seen = std::collections::BTreeSet::new();
        for cfg in &cfgs {
            if !seen.insert((cfg.window, cfg.initial_ms, cfg.max_ms)) {
                continue;
            }
            let (t, v) = steady(cfg, tier.pick(300, 2_000));
            s.tally.merge(&t);
            viols.extend(v);
        }
        push(&mut s, viols, property);
        s.states = s.tally.get("schedules");
        s.transitions = s.tally.get("evaluations");
        s.executions = s.tally.get("schedules");
        s.distinct_nontrivial = s.tally.get("schedules");
        s.sample(json!({"pattern": [false, true, true], "meaning": "intervals a, b, b repeated"}));
        parts.push(s);
    }
    parts
}

fn push(part: &mut Part, viols: Vec<Viol>, property: &str) {
    let mut viols = viols;
    viols.sort_by_key(|v| v.replay.to_string().len());
    for v in viols {
        if v.prop == property || v.sig.starts_with("panic") {
            let p: &'static str = if property == "C10" { "C10" } else { "C11" };
            part.violation(p, v.what, v.sig, v.replay);
        }
    }
}

pub fn replay(v: &Value) -> Result<(), String> {
    let cfg = FdCfg::from_json(&v["config"]).ok_or("bad config")?;
    match v["kind"].as_str().unwrap_or("") {
        "exhaustive" | "differential" => {
            let seq: Vec<Ev> = v["events"].as_array().map(|a| a.iter().filter_map(|e| Ev::from_name(e.as_str()?)).collect()).unwrap_or_default();
            let r = run_seq(&cfg, &seq).map_err(|e| e.1)?;
            println!("verdicts (live?) at the evaluations: {r:?}");
            if seq.iter().any(|e| e.is_stale_hb()) {
                let stripped: Vec<Ev> = seq.iter().copied().filter(|e| !e.is_stale_hb()).collect();
                let r2 = run_seq(&cfg, &stripped).map_err(|e| e.1)?;
                println!("without equal/lower heartbeats: {r2:?}");
                if r2 != r {
                    return Err("equal/lower heartbeats changed the verdicts".into());
                }
            }
            Ok(())
        }
        "silence-with-traffic" => {
            let (_, v) = silence_with_traffic(&cfg);
            match v.first() {
                Some(x) => Err(x.what.clone()),
                None => Ok(()),
            }
        }
        "two-lives" => {
            let (_, v) = two_lives(&cfg);
            match v.first() {
                Some(x) => Err(x.what.clone()),
                None => Ok(()),
            }
        }
        "periodic" => {
            let sched: Vec<Ev> = v["schedule"].as_array().map(|a| a.iter().filter_map(|e| Ev::from_name(e.as_str()?)).collect()).unwrap_or_default();
            let arrivals = v["arrivals"].as_u64().unwrap_or(300);
            let mut o = Observer::new(cfg);
            'outer: loop {
                for e in &sched {
                    if let (_, Some(x)) = o.step(*e) {
                        return Err(x.1);
                    }
                    if o.fresh_count >= arrivals {
                        break 'outer;
                    }
                }
            }
            o.step(Ev::AdvBoundPlus);
            match o.step(Ev::Eval) {
                (_, Some(x)) => Err(x.1),
                _ => Ok(()),
            }
        }
        _ => {
            let (_, v) = steady(&FdCfg { phi: 1.0, ..cfg }, v["arrivals"].as_u64().unwrap_or(300));
            match v.first() {
                Some(x) => Err(x.what.clone()),
                None => Ok(()),
            }
        }
    }
}
