//! `hostile` — malformed and semantically arbitrary datagrams (C09).

use std::time::{Duration, Instant};

use rayon::prelude::*;
use serde_json::{json, Value};

use crate::codec::{self, DigestEntry, Id, Msg, Op, StreamPlan};
use crate::node::{Node, NodeOpts};
use crate::real;
use crate::report::{Part, Tier};
use crate::util::{guarded, short_loc, text, Content, Tally};

fn receiver_id() -> Id {
    Id::v4("recv", 1, 10_001)
}
fn known_id() -> Id {
    Id::v4("known", 1, 10_002)
}
fn unknown_id() -> Id {
    Id::v4("unknown", 1, 10_003)
}

pub const BASE_STATES: usize = 6;

fn ack(ops: Vec<Op>) -> chitchat::ChitchatMessage {
    real::build_real(&Msg::Ack { ops }).expect("valid ack")
}

/// The six base states a hostile datagram meets.
pub fn base_state(i: usize) -> Node {
    let fd = chitchat::FailureDetectorConfig::new(8.0, 1000, Duration::from_secs(10), Duration::from_secs(5), Duration::from_secs(60));
    let mut node = Node::new(&receiver_id(), &NodeOpts { fd, ..Default::default() });
    let x = known_id();
    let hello = |hb: u64| real::build_real(&Msg::Syn { digest: vec![DigestEntry { id: known_id(), heartbeat: hb, gc: 0, mv: 0 }], cluster_id: "c".into() }).unwrap();
    let kv = |k: &str, ver: u64, st: u8| Op::Kv { key: k.into(), value: if st == 1 { String::new() } else { "v".into() }, version: ver, status: st };
    match i {
        0 => {}
        1 => {
            node.cc.verif_process_message(hello(1));
        }
        2 => {
            node.cc.verif_process_message(hello(1));
            node.cc.verif_process_message(ack(vec![Op::Node { id: x, gc: 0, from: 0 }, kv("a", 1, 0), kv("b", 2, 0)]));
        }
        3 => {
            node.cc.verif_process_message(hello(1));
            node.cc.verif_process_message(ack(vec![Op::Node { id: x, gc: 3, from: 0 }, kv("a", 1, 0)]));
        }
        4 => {
            node.cc.verif_process_message(hello(1));
            node.cc.verif_process_message(ack(vec![Op::Node { id: x, gc: 3, from: 0 }, kv("a", 4, 0), kv("é", 5, 1)]));
        }
        _ => {
            // the member is live in the failure detector, the receiver owns a key
            node.cc.self_node_state().set("a", "own");
            for hb in 1..=3 {
                node.cc.verif_process_message(hello(hb));
                crate::clock::advance(Duration::from_secs(1));
            }
            node.cc.verif_update_nodes_liveness();
        }
    }
    node
}

struct Inv {
    frontiers: Vec<(Id, u64, u64)>,
}

fn observe(node: &Node) -> Inv {
    Inv { frontiers: node.cc.node_states().iter().map(|(id, ns)| (real::from_real_id(id), ns.last_gc_version(), ns.max_version())).collect() }
}

/// Invariants after processing: frontiers monotone (copies that still exist), live and dead
/// disjoint, the receiver itself live and present.
fn check_invariants(node: &Node, before: &Inv) -> Option<(String, String)> {
    for (id, gc, mv) in &before.frontiers {
        if let Some(ns) = node.cc.node_state(&real::to_real_id(id)) {
            if (ns.last_gc_version(), ns.max_version()) < (*gc, *mv) {
                return Some((format!("frontier of {} went ({gc},{mv}) -> ({},{})", id.node_id, ns.last_gc_version(), ns.max_version()), "frontier-decreased".into()));
            }
        }
    }
    let live: Vec<_> = node.cc.live_nodes().cloned().collect();
    let dead: Vec<_> = node.cc.dead_nodes().cloned().collect();
    if live.iter().any(|l| dead.contains(l)) {
        return Some(("a member is both live and dead".into(), "live-dead-overlap".into()));
    }
    if !live.contains(&node.real_id) || node.cc.node_state(&node.real_id).is_none() {
        return Some(("the receiver is not live / has lost its own state".into(), "self-not-live".into()));
    }
    None
}

/// Delivers datagrams (as bytes) to a node in base state `base`. Returns a violation, if any.
pub fn deliver_all(base: usize, datagrams: &[Vec<u8>], t: &mut Tally) -> Option<(String, String)> {
    let mut node = base_state(base);
    for bytes in datagrams {
        t.inc("datagrams");
        let msg = match guarded(|| real::real_decode(bytes)) {
            Err(p) => return Some((format!("decoder panicked: {p}"), format!("panic:{}", short_loc(&p)))),
            Ok(Err(_)) => {
                t.inc("rejected_by_decoder");
                continue;
            }
            Ok(Ok((m, _))) => m,
        };
        t.inc("decoded");
        let before = observe(&node);
        if let Err(p) = guarded(|| node.cc.verif_process_message(msg)) {
            return Some((format!("process_message panicked: {p}"), format!("panic:{}", short_loc(&p))));
        }
        if let Some(v) = check_invariants(&node, &before) {
            return Some(v);
        }
    }
    // the node must survive what comes next: its own gossip tick and one more (harmless) datagram
    if let Err(p) = guarded(|| node.cc.verif_update_self_heartbeat()) {
        return Some((format!("the next gossip tick panicked: {p}"), format!("panic:{}", short_loc(&p))));
    }
    let harmless = real::build_real(&Msg::BadCluster).unwrap();
    if let Err(p) = guarded(|| node.cc.verif_process_message(harmless)) {
        return Some((format!("the next (harmless) datagram panicked the node: {p}"), format!("panic:{}", short_loc(&p))));
    }
    let before = observe(&node);
    if let Err(p) = guarded(|| node.cc.verif_update_nodes_liveness()) {
        return Some((format!("liveness evaluation panicked afterwards: {p}"), format!("panic:{}", short_loc(&p))));
    }
    if let Err(p) = guarded(|| node.cc.verif_gc_keys_marked_for_deletion()) {
        return Some((format!("GC panicked afterwards: {p}"), format!("panic:{}", short_loc(&p))));
    }
    if let Err(p) = guarded(|| node.cc.verif_create_syn_message()) {
        return Some((format!("creating a SYN panicked afterwards: {p}"), format!("panic:{}", short_loc(&p))));
    }
    check_invariants(&node, &before)
}

// ------------------------------------------------------------------ (a) op grammar in arbitrary order

pub fn hostile_alphabet() -> (Vec<Op>, Vec<Op>) {
    let mut nodes = vec![];
    for id in [known_id(), unknown_id(), receiver_id()] {
        for gc in [0u64, 3, u64::MAX] {
            for from in [0u64, 1, 3] {
                nodes.push(Op::Node { id: id.clone(), gc, from });
            }
        }
    }
    let mut others = vec![];
    for key in ["a", "é"] {
        for version in [0u64, 1, 2, 5, u64::MAX] {
            for status in [0u8, 1, 2] {
                others.push(Op::Kv { key: key.into(), value: "h".into(), version, status });
            }
        }
    }
    for m in [0u64, 1, 5, u64::MAX] {
        others.push(Op::SetMax(m));
    }
    (nodes, others)
}

fn op_short(op: &Op) -> String {
    match op {
        Op::Node { id, gc, from } => format!("Node({},gc={gc},from={from})", id.node_id),
        Op::Kv { key, version, status, .. } => format!("Kv({key},v{version},s{status})"),
        Op::SetMax(m) => format!("SetMax({m})"),
    }
}

fn ops_json(ops: &[Op]) -> Value {
    json!(ops.iter().map(op_short).collect::<Vec<_>>())
}

fn frame(ops: &[Op], synack: bool) -> Vec<u8> {
    if synack {
        codec::encode(&Msg::SynAck { digest: vec![DigestEntry { id: unknown_id(), heartbeat: u64::MAX, gc: 1, mv: 1 }], ops: ops.to_vec() })
    } else {
        codec::encode(&Msg::Ack { ops: ops.to_vec() })
    }
}

pub struct Viol {
    pub what: String,
    pub sig: String,
    pub replay: Value,
}

/// Every op sequence of length <= max_len (first op from the full alphabet), one datagram.
pub fn grammar(max_len: usize, deadline: Instant) -> (Tally, Vec<Viol>, bool) {
    let (nodes, others) = hostile_alphabet();
    let mut all: Vec<Op> = nodes.clone();
    all.extend(others.iter().cloned());
    let capped = std::sync::atomic::AtomicBool::new(false);
    // parallel over (base state, first two ops)
    let mut seeds: Vec<(usize, Vec<Op>)> = vec![];
    for base in 0..BASE_STATES {
        // sequences not starting with a member header are rejected by the decoder: length 1 and 2 only
        for o in &others {
            seeds.push((base, vec![o.clone()]));
        }
        for n in &nodes {
            seeds.push((base, vec![n.clone()]));
            for o in &all {
                seeds.push((base, vec![n.clone(), o.clone()]));
            }
        }
    }
    let results: Vec<(Tally, Vec<Viol>)> = seeds
        .par_iter()
        .map(|(base, prefix)| {
            let mut t = Tally::default();
            let mut v = vec![];
            // enumerate all extensions of a 2-op prefix; 1-op prefixes stand for themselves
            let mut stack: Vec<Vec<Op>> = vec![prefix.clone()];
            while let Some(seq) = stack.pop() {
                if Instant::now() > deadline {
                    capped.store(true, std::sync::atomic::Ordering::Relaxed);
                    break;
                }
                for synack in [false, true] {
                    // SYN-ACK framing on a quarter of the cases (same delta path, plus a digest)
                    if synack && (seq.len() + base) % 4 != 0 {
                        continue;
                    }
                    t.inc("sequences");
                    let bytes = frame(&seq, synack);
                    if let Some((what, sig)) = deliver_all(*base, std::slice::from_ref(&bytes), &mut t) {
                        if v.len() < 3 {
                            v.push(Viol { what: format!("base state {base}, {} [{}]: {what}", if synack { "SYN-ACK" } else { "ACK" }, seq.iter().map(op_short).collect::<Vec<_>>().join(" ")), sig, replay: json!({"engine":"hostile","family":"grammar","base":base,"synack":synack,"datagrams":[ops_json(&seq)],"hex":[hex(&bytes)]}) });
                        }
                    }
                }
                if prefix.len() == 2 && seq.len() < max_len {
                    for o in &all {
                        let mut s = seq.clone();
                        s.push(o.clone());
                        stack.push(s);
                    }
                }
            }
            (t, v)
        })
        .collect();
    let mut tally = Tally::default();
    let mut viols = vec![];
    for (t, v) in results {
        tally.merge(&t);
        viols.extend(v);
    }
    (tally, viols, capped.load(std::sync::atomic::Ordering::Relaxed))
}

/// Every pair of datagrams whose deltas have 1..=2 ops.
pub fn two_datagrams(bases: &[usize], deadline: Instant) -> (Tally, Vec<Viol>, bool) {
    let (nodes, others) = hostile_alphabet();
    let mut all: Vec<Op> = nodes.clone();
    all.extend(others.iter().cloned());
    let mut msgs: Vec<Vec<Op>> = vec![];
    for n in &nodes {
        msgs.push(vec![n.clone()]);
        for o in &all {
            msgs.push(vec![n.clone(), o.clone()]);
        }
    }
    let framed: Vec<Vec<u8>> = msgs.iter().map(|m| frame(m, false)).collect();
    let capped = std::sync::atomic::AtomicBool::new(false);
    let idx: Vec<usize> = (0..msgs.len()).collect();
    let results: Vec<(Tally, Vec<Viol>)> = idx
        .par_iter()
        .map(|i| {
            let mut t = Tally::default();
            let mut v = vec![];
            for &base in bases {
                if Instant::now() > deadline {
                    capped.store(true, std::sync::atomic::Ordering::Relaxed);
                    break;
                }
                for j in 0..msgs.len() {
                    t.inc("sequences");
                    if let Some((what, sig)) = deliver_all(base, &[framed[*i].clone(), framed[j].clone()], &mut t) {
                        if v.len() < 3 {
                            v.push(Viol { what: format!("base state {base}: {what}"), sig, replay: json!({"engine":"hostile","family":"two-datagrams","base":base,"datagrams":[ops_json(&msgs[*i]), ops_json(&msgs[j])],"hex":[hex(&framed[*i]), hex(&framed[j])]}) });
                        }
                    }
                }
            }
            (t, v)
        })
        .collect();
    let mut tally = Tally::default();
    let mut viols = vec![];
    for (t, v) in results {
        tally.merge(&t);
        viols.extend(v);
    }
    (tally, viols, capped.load(std::sync::atomic::Ordering::Relaxed))
}

/// Hostile digests: SYN (right and wrong cluster id) and SYN-ACK datagrams whose digest lists the
/// receiver itself / a known / an unknown member with extreme heartbeats and frontiers; all
/// sequences of up to `max_len` such datagrams.
pub fn digest_grammar(max_len: usize, deadline: Instant) -> (Tally, Vec<Viol>, bool) {
    let mut entries: Vec<DigestEntry> = vec![];
    for id in [receiver_id(), known_id(), unknown_id()] {
        for hb in [0u64, 1, u64::MAX - 1, u64::MAX] {
            for (gc, mv) in [(0u64, 0u64), (u64::MAX, 0), (0, u64::MAX), (3, 1)] {
                entries.push(DigestEntry { id: id.clone(), heartbeat: hb, gc, mv });
            }
        }
    }
    // datagrams: one or two digest entries, three framings
    let mut datagrams: Vec<(String, Vec<u8>)> = vec![];
    let show = |e: &DigestEntry| format!("{}:hb={},gc={},mv={}", e.id.node_id, e.heartbeat, e.gc, e.mv);
    for (i, e) in entries.iter().enumerate() {
        let mut digests = vec![vec![e.clone()]];
        // pair with an entry of another member (first of each member's block)
        for j in [0usize, 16, 32] {
            if entries[j].id != e.id {
                digests.push(vec![e.clone(), entries[(j + i) % 16 + j].clone()]);
            }
        }
        for d in digests {
            let name = d.iter().map(show).collect::<Vec<_>>().join(" + ");
            datagrams.push((format!("SYN[{name}]"), codec::encode(&Msg::Syn { digest: d.clone(), cluster_id: "c".into() })));
            datagrams.push((format!("SYN-ACK[{name}]"), codec::encode(&Msg::SynAck { digest: d.clone(), ops: vec![] })));
            if i % 4 == 0 {
                datagrams.push((format!("foreign SYN[{name}]"), codec::encode(&Msg::Syn { digest: d, cluster_id: "other".into() })));
            }
        }
    }
    let capped = std::sync::atomic::AtomicBool::new(false);
    let n = datagrams.len();
    let idx: Vec<usize> = (0..n).collect();
    let results: Vec<(Tally, Vec<Viol>)> = idx
        .par_iter()
        .map(|i| {
            let mut t = Tally::default();
            let mut v: Vec<Viol> = vec![];
            for base in 0..BASE_STATES {
                if Instant::now() > deadline {
                    capped.store(true, std::sync::atomic::Ordering::Relaxed);
                    break;
                }
                let mut seqs: Vec<Vec<usize>> = vec![vec![*i]];
                if max_len >= 2 {
                    // second datagram: every datagram with a single-entry digest (every 1st of each group)
                    for j in 0..n {
                        if !datagrams[j].0.contains(" + ") {
                            seqs.push(vec![*i, j]);
                        }
                    }
                }
                for s in seqs {
                    t.inc("sequences");
                    let bytes: Vec<Vec<u8>> = s.iter().map(|k| datagrams[*k].1.clone()).collect();
                    if let Some((what, sig)) = deliver_all(base, &bytes, &mut t) {
                        if v.len() < 3 {
                            v.push(Viol { what: format!("base state {base}, datagrams {:?}: {what}", s.iter().map(|k| datagrams[*k].0.clone()).collect::<Vec<_>>()), sig, replay: json!({"engine":"hostile","family":"digests","base":base,"datagrams":s.iter().map(|k| datagrams[*k].0.clone()).collect::<Vec<_>>(),"hex":bytes.iter().map(|b| hex(b)).collect::<Vec<_>>()}) });
                        }
                    }
                }
            }
            (t, v)
        })
        .collect();
    let mut tally = Tally::default();
    let mut viols = vec![];
    for (t, v) in results {
        tally.merge(&t);
        viols.extend(v);
    }
    tally.add("digest_datagrams", n as u64);
    (tally, viols, capped.load(std::sync::atomic::Ordering::Relaxed))
}

// ------------------------------------------------------------------ (b) byte-level mutations of valid messages

fn hex(b: &[u8]) -> String {
    b.iter().map(|x| format!("{x:02x}")).collect()
}
fn unhex(s: &str) -> Vec<u8> {
    (0..s.len() / 2).filter_map(|i| u8::from_str_radix(&s[2 * i..2 * i + 2], 16).ok()).collect()
}

pub fn corpus(tier: Tier) -> Vec<(String, Vec<u8>)> {
    let x = known_id();
    let kv = |k: &str, v: &str, ver: u64, st: u8| Op::Kv { key: k.into(), value: v.into(), version: ver, status: st };
    let d = |ids: &[Id]| ids.iter().enumerate().map(|(i, id)| DigestEntry { id: id.clone(), heartbeat: 3 + i as u64, gc: i as u64, mv: 2 * i as u64 }).collect::<Vec<_>>();
    let v6 = Id { node_id: "six".into(), generation: 9, addr: "[2001:db8::1]:7000".parse().unwrap() };
    let mut out: Vec<(String, Vec<u8>)> = vec![];
    let mut add = |name: &str, m: Msg, plan: StreamPlan| out.push((name.to_string(), codec::encode_with(&m, plan)));
    let dflt = StreamPlan::default();
    let raw = StreamPlan { block_size: 16_384, mode: codec::BlockMode::Raw, trailing_empty_block: false };
    let tiny = StreamPlan { block_size: 9, mode: codec::BlockMode::Raw, trailing_empty_block: true };
    add("badcluster", Msg::BadCluster, dflt);
    add("syn-empty", Msg::Syn { digest: vec![], cluster_id: "c".into() }, dflt);
    add("syn-3", Msg::Syn { digest: d(&[x.clone(), unknown_id(), v6.clone()]), cluster_id: "c".into() }, dflt);
    add("syn-self", Msg::Syn { digest: d(&[receiver_id(), x.clone()]), cluster_id: "c".into() }, dflt);
    add("syn-other-cluster", Msg::Syn { digest: d(&[x.clone()]), cluster_id: "other".into() }, dflt);
    for (pn, plan) in [("auto", dflt), ("raw", raw), ("tiny", tiny)] {
        add(&format!("ack-empty-{pn}"), Msg::Ack { ops: vec![] }, plan);
        add(&format!("ack-header-{pn}"), Msg::Ack { ops: vec![Op::Node { id: x.clone(), gc: 0, from: 0 }] }, plan);
        add(&format!("ack-kvs-{pn}"), Msg::Ack { ops: vec![Op::Node { id: x.clone(), gc: 0, from: 0 }, kv("a", "1", 1, 0), kv("b", "", 2, 1), kv("é", "ttl", 3, 2)] }, plan);
        add(&format!("ack-reset-{pn}"), Msg::Ack { ops: vec![Op::Node { id: x.clone(), gc: 5, from: 0 }, kv("a", "1", 6, 0)] }, plan);
        add(&format!("ack-setmax-{pn}"), Msg::Ack { ops: vec![Op::Node { id: x.clone(), gc: 0, from: 0 }, Op::SetMax(4)] }, plan);
        add(
            &format!("ack-two-members-{pn}"),
            Msg::Ack { ops: vec![Op::Node { id: x.clone(), gc: 0, from: 0 }, kv("a", "1", 1, 0), Op::Node { id: v6.clone(), gc: 1, from: 0 }, kv("k", "v", 2, 0), Op::Node { id: unknown_id(), gc: 0, from: 0 }, Op::SetMax(1)] },
            plan,
        );
        add(&format!("synack-{pn}"), Msg::SynAck { digest: d(&[x.clone(), v6.clone()]), ops: vec![Op::Node { id: x.clone(), gc: 0, from: 0 }, kv("a", "1", 1, 0), kv("b", "2", 2, 2)] }, plan);
        add(&format!("synack-self-{pn}"), Msg::SynAck { digest: d(&[receiver_id()]), ops: vec![Op::Node { id: receiver_id(), gc: 0, from: 0 }, kv("a", "spoofed", 1, 0)] }, plan);
    }
    // compressible and high-entropy bodies; several blocks
    add("ack-compressible", Msg::Ack { ops: vec![Op::Node { id: x.clone(), gc: 0, from: 0 }, kv("a", &text(600, Content::Repeat, 1), 1, 0)] }, dflt);
    add("ack-entropy", Msg::Ack { ops: vec![Op::Node { id: x.clone(), gc: 0, from: 0 }, kv("a", &text(300, Content::Mixed, 1), 1, 0)] }, dflt);
    if tier == Tier::Thorough {
        add("ack-multiblock", Msg::Ack { ops: vec![Op::Node { id: x.clone(), gc: 0, from: 0 }, kv("a", &text(17_000, Content::Mixed, 1), 1, 0), kv("b", &text(40, Content::Repeat, 2), 2, 0)] }, dflt);
    } else {
        add("ack-multiblock", Msg::Ack { ops: vec![Op::Node { id: x.clone(), gc: 0, from: 0 }, kv("a", &text(400, Content::Mixed, 1), 1, 0), kv("b", &text(40, Content::Repeat, 2), 2, 0)] }, StreamPlan { block_size: 128, mode: codec::BlockMode::Auto, trailing_empty_block: false });
    }
    // real emissions
    let mut n = base_state(2);
    out.push(("real-syn".into(), real::real_encode(&n.cc.verif_create_syn_message())));
    let syn = real::build_real(&Msg::Syn { digest: vec![], cluster_id: "c".into() }).unwrap();
    if let Some(r) = n.cc.verif_process_message(syn) {
        out.push(("real-synack".into(), real::real_encode(&r)));
    }
    out
}

/// Positions of block-length fields in a SYN-ACK / ACK datagram (so that +-1 can be applied).
fn block_len_offsets(bytes: &[u8]) -> Vec<usize> {
    let mut out = vec![];
    if bytes.len() < 4 || bytes[3] == 0 || bytes[3] == 3 {
        return out;
    }
    let mut pos = 4;
    if bytes[3] == 1 {
        // skip the digest with the independent decoder's help: decode and re-measure
        if let Ok(d) = codec::decode(bytes) {
            pos = 4 + codec::digest_len(d.msg.digest());
        } else {
            return out;
        }
    }
    while pos + 3 <= bytes.len() && bytes[pos] != 0 {
        out.push(pos + 1);
        let len = u16::from_le_bytes([bytes[pos + 1], bytes[pos + 2]]) as usize;
        pos += 3 + len;
    }
    out
}

/// Breadcrumb: the mutant being processed, so that the parent process can name it if this process
/// is killed by an allocation failure or any other abort (which `catch_unwind` cannot turn into a
/// verdict).
fn breadcrumb_path() -> std::path::PathBuf {
    let d = crate::report::verif_dir().join("replays");
    let _ = std::fs::create_dir_all(&d);
    d.join(format!(".hostile-child-{}.txt", std::process::id()))
}

pub fn mutations(tier: Tier, range: std::ops::Range<usize>, breadcrumbs: bool, deadline: Instant) -> (Tally, Vec<Viol>, bool, usize) {
    let corpus: Vec<(String, Vec<u8>)> = corpus(tier).into_iter().enumerate().filter(|(i, _)| range.contains(i)).map(|(_, c)| c).collect();
    let n = corpus.len();
    let capped = std::sync::atomic::AtomicBool::new(false);
    let crumb = breadcrumb_path();
    let results: Vec<(Tally, Vec<Viol>)> = corpus
        .iter()
        .map(|(name, bytes)| {
            let mut t = Tally::default();
            let mut v: Vec<Viol> = vec![];
            let try_one = |mutated: Vec<u8>, how: String, t: &mut Tally, v: &mut Vec<Viol>| {
                if breadcrumbs {
                    let _ = std::fs::write(&crumb, format!("{name}\n{how}\n{}\n", hex(&mutated)));
                }
                for base in [2usize, 5] {
                    t.inc("mutants");
                    if let Some((what, sig)) = deliver_all(base, std::slice::from_ref(&mutated), t) {
                        if v.len() < 3 {
                            v.push(Viol { what: format!("{name} {how}, base state {base}: {what}"), sig, replay: json!({"engine":"hostile","family":"bytes","base":base,"corpus":name,"mutation":how,"hex":[hex(&mutated)]}) });
                        }
                    }
                }
            };
            // the unmodified message must be accepted
            let _ = guarded(|| real::real_decode(bytes));
            try_one(bytes.clone(), "unmodified".into(), &mut t, &mut v);
            for len in 0..bytes.len() {
                if Instant::now() > deadline {
                    capped.store(true, std::sync::atomic::Ordering::Relaxed);
                    break;
                }
                try_one(bytes[..len].to_vec(), format!("truncated to {len}"), &mut t, &mut v);
            }
            for off in 0..bytes.len() {
                if Instant::now() > deadline {
                    capped.store(true, std::sync::atomic::Ordering::Relaxed);
                    break;
                }
                let b = bytes[off];
                let mut repl = vec![0x00u8, 0xff, b ^ 1, b ^ 0x80];
                repl.sort();
                repl.dedup();
                for r in repl {
                    if r == b {
                        continue;
                    }
                    let mut m = bytes.clone();
                    m[off] = r;
                    try_one(m, format!("byte {off}: {b:#04x} -> {r:#04x}"), &mut t, &mut v);
                }
            }
            for off in block_len_offsets(bytes) {
                let len = u16::from_le_bytes([bytes[off], bytes[off + 1]]);
                for nl in [len.wrapping_sub(1), len.wrapping_add(1), 0, u16::MAX] {
                    let mut m = bytes.clone();
                    m[off..off + 2].copy_from_slice(&nl.to_le_bytes());
                    try_one(m, format!("block length at {off}: {len} -> {nl}"), &mut t, &mut v);
                }
            }
            // trailing garbage
            let mut m = bytes.clone();
            m.extend_from_slice(&[0xff, 0x00, 0x01]);
            try_one(m, "3 trailing bytes".into(), &mut t, &mut v);
            (t, v)
        })
        .collect();
    let mut tally = Tally::default();
    let mut viols = vec![];
    for (t, v) in results {
        tally.merge(&t);
        viols.extend(v);
    }
    (tally, viols, capped.load(std::sync::atomic::Ordering::Relaxed), n)
}

const CHILDREN: usize = 8;

/// Entry point of a child process: `ccmc hostile-child <quick|thorough> <start> <end> <secs>`.
pub fn child_main(tier: Tier, start: usize, end: usize, secs: u64) {
    let (t, v, capped, n) = mutations(tier, start..end, true, Instant::now() + Duration::from_secs(secs));
    let out = json!({
        "tally": t.to_json(), "capped": capped, "n": n,
        "viols": v.iter().map(|x| json!({"what": x.what, "sig": x.sig, "replay": x.replay})).collect::<Vec<_>>(),
    });
    let _ = std::fs::remove_file(breadcrumb_path());
    println!("{out}");
}

fn mutations_in_children(tier: Tier, secs: u64) -> (Tally, Vec<Viol>, bool, usize) {
    let total = corpus(tier).len();
    let exe = std::env::current_exe().expect("current exe");
    let per = total.div_ceil(CHILDREN);
    let mut handles = vec![];
    for c in 0..CHILDREN {
        let (start, end) = (c * per, ((c + 1) * per).min(total));
        if start >= end {
            continue;
        }
        let exe = exe.clone();
        let tier_s = tier.name().to_string();
        handles.push(std::thread::spawn(move || {
            let child = std::process::Command::new(&exe)
                .args(["hostile-child", &tier_s, &start.to_string(), &end.to_string(), &secs.to_string()])
                .env("RAYON_NUM_THREADS", "2")
                .stdout(std::process::Stdio::piped())
                .stderr(std::process::Stdio::null())
                .spawn();
            let Ok(child) = child else { return (None, None, 0u32) };
            let pid = child.id();
            let out = child.wait_with_output();
            match out {
                Ok(o) if o.status.success() => (Some(String::from_utf8_lossy(&o.stdout).to_string()), None, pid),
                Ok(o) => (None, Some(format!("{}", o.status)), pid),
                Err(e) => (None, Some(format!("{e}")), pid),
            }
        }));
    }
    let mut tally = Tally::default();
    let mut viols = vec![];
    let mut capped = false;
    for h in handles {
        let (stdout, failure, pid) = h.join().unwrap_or((None, Some("thread panicked".into()), 0));
        if let Some(s) = stdout {
            if let Some(v) = s.lines().rev().find_map(|l| serde_json::from_str::<Value>(l).ok()) {
                if let Some(o) = v["tally"].as_object() {
                    for (k, n) in o {
                        // keys are static strings in the child; map the known ones back
                        for known in ["mutants", "datagrams", "decoded", "rejected_by_decoder"] {
                            if k == known {
                                tally.add(known, n.as_u64().unwrap_or(0));
                            }
                        }
                    }
                }
                capped |= v["capped"].as_bool().unwrap_or(false);
                for x in v["viols"].as_array().cloned().unwrap_or_default() {
                    viols.push(Viol { what: x["what"].as_str().unwrap_or("").to_string(), sig: x["sig"].as_str().unwrap_or("").to_string(), replay: x["replay"].clone() });
                }
            }
        } else if let Some(f) = failure {
            // the child died: name the datagram it was processing
            let crumb = crate::report::verif_dir().join("replays").join(format!(".hostile-child-{pid}.txt"));
            let txt = std::fs::read_to_string(&crumb).unwrap_or_default();
            let _ = std::fs::remove_file(&crumb);
            let mut lines = txt.lines();
            let (name, how, hexs) = (lines.next().unwrap_or("?"), lines.next().unwrap_or("?"), lines.next().unwrap_or(""));
            viols.push(Viol {
                what: format!("the process died ({f}) while decoding / processing corpus message `{name}` mutated by `{how}` ({} bytes): an abort (e.g. a failed allocation) cannot be caught, the node is gone", hexs.len() / 2),
                sig: "process-abort".into(),
                replay: json!({"engine":"hostile","family":"bytes","base":2,"corpus":name,"mutation":how,"hex":[hexs]}),
            });
        }
    }
    (tally, viols, capped, total)
}

// ------------------------------------------------------------------ (c) closure over datagram sequences

/// which extensions of the reduced closure alphabet the thorough tier uses (bit mask, see closure_alphabet)
const THOROUGH_CLOSURE_EXT: u32 = 1;

#[derive(Clone)]
enum CEv {
    Datagram(Vec<u8>),
    /// liveness evaluation + key GC at the current instant
    Tick,
    /// 11 s pass (more than the failure detector's max interval), then liveness evaluation + key GC
    AdvanceTick,
}

fn closure_alphabet(tier: Tier) -> Vec<(String, CEv)> {
    let mut out: Vec<(String, CEv)> = vec![("tick".into(), CEv::Tick), ("advance-11s-tick".into(), CEv::AdvanceTick)];
    // extensions of the reduced alphabet (thorough tier; CCMC_CLOSURE_ALPHA overrides for experiments)
    let ext: u32 = std::env::var("CCMC_CLOSURE_ALPHA").ok().and_then(|x| x.parse().ok()).unwrap_or(tier.pick(0, THOROUGH_CLOSURE_EXT));
    let mut ids: Vec<Id> = vec![known_id(), unknown_id()];
    if ext & 1 != 0 {
        ids.push(receiver_id());
    }
    let mut gcs: Vec<u64> = vec![0, 3];
    if ext & 2 != 0 {
        gcs.push(u64::MAX);
    }
    let mut versions: Vec<u64> = vec![1, 2, 5];
    if ext & 4 != 0 {
        versions.push(u64::MAX);
    }
    let mut setmaxes: Vec<u64> = vec![0, 5];
    if ext & 8 != 0 {
        setmaxes.push(u64::MAX);
    }
    let mut hbs: Vec<u64> = vec![1, u64::MAX];
    if ext & 16 != 0 {
        hbs.push(u64::MAX - 1);
    }
    let mut headers = vec![];
    for id in &ids {
        for gc in &gcs {
            for from in [0u64, 1, 3] {
                headers.push(Op::Node { id: id.clone(), gc: *gc, from });
            }
        }
    }
    let mut tails: Vec<Option<Op>> = vec![None];
    for version in versions.clone() {
        for status in [0u8, 1] {
            tails.push(Some(Op::Kv { key: "a".into(), value: "h".into(), version, status }));
        }
    }
    for m in setmaxes.clone() {
        tails.push(Some(Op::SetMax(m)));
    }
    for h in &headers {
        for t in &tails {
            let mut ops = vec![h.clone()];
            if let Some(o) = t {
                ops.push(o.clone());
            }
            out.push((format!("ACK[{}]", ops.iter().map(op_short).collect::<Vec<_>>().join(" ")), CEv::Datagram(frame(&ops, false))));
        }
    }
    // hostile digests, single entry
    for id in [receiver_id(), known_id(), unknown_id()] {
        for hb in hbs.clone() {
            for (gc, mv) in [(0u64, 0u64), (3, 1)] {
                let e = DigestEntry { id: id.clone(), heartbeat: hb, gc, mv };
                let name = format!("{}:hb={},gc={},mv={}", id.node_id, hb, gc, mv);
                out.push((format!("SYN[{name}]"), CEv::Datagram(codec::encode(&Msg::Syn { digest: vec![e.clone()], cluster_id: "c".into() }))));
                out.push((format!("SYN-ACK[{name}]"), CEv::Datagram(codec::encode(&Msg::SynAck { digest: vec![e], ops: vec![] }))));
            }
        }
    }
    out
}

/// Canonical form of what later behaviour can depend on and the harness can observe: every copy
/// (id, heartbeat, frontier, entries), the live and dead sets. The failure detector's sampling
/// windows and timers are not observable; states that differ only there are merged (which can
/// only lose coverage, never produce an alarm: every explored path is a real execution).
fn closure_key(node: &Node) -> u128 {
    let mut parts: Vec<String> = vec![];
    for (id, ns) in node.cc.node_states() {
        if *id == node.real_id {
            // the receiver's own heartbeat is not part of the key (it only grows with its own ticks)
            let kvs: Vec<String> = ns.key_values_including_deleted().map(|(k, vv)| format!("{k}={}@{}/{}", vv.value, vv.version, crate::node::status_kind(vv))).collect();
            parts.push(format!("self gc{} mv{} {kvs:?}", ns.last_gc_version(), ns.max_version()));
            continue;
        }
        let hb: u64 = ns.heartbeat().into();
        let kvs: Vec<String> = ns.key_values_including_deleted().map(|(k, vv)| format!("{k}={}@{}/{}", vv.value, vv.version, crate::node::status_kind(vv))).collect();
        parts.push(format!("{:?} hb{hb} gc{} mv{} {kvs:?}", real::from_real_id(id).node_id, ns.last_gc_version(), ns.max_version()));
    }
    let mut live: Vec<String> = node.cc.live_nodes().map(|i| i.node_id.clone()).collect();
    live.sort();
    let mut dead: Vec<String> = node.cc.dead_nodes().map(|i| i.node_id.clone()).collect();
    dead.sort();
    parts.push(format!("live{live:?} dead{dead:?}"));
    crate::util::hash128(&parts.join("|"))
}

/// Replays `path` on base state `base`; oracles on the last event only (every prefix is itself an
/// explored path). Returns the key of the state reached, or the violation.
fn closure_run(base: usize, alphabet: &[(String, CEv)], path: &[u16], probes: bool, t: &mut Tally) -> Result<u128, (String, String)> {
    let mut node = base_state(base);
    for (i, e) in path.iter().enumerate() {
        let last = i + 1 == path.len();
        let before = observe(&node);
        match &alphabet[*e as usize].1 {
            CEv::Datagram(bytes) => {
                t.inc("datagrams");
                let msg = match guarded(|| real::real_decode(bytes)) {
                    Err(p) => return Err((format!("decoder panicked: {p}"), format!("panic:{}", short_loc(&p)))),
                    Ok(Err(_)) => {
                        t.inc("rejected_by_decoder");
                        continue;
                    }
                    Ok(Ok((m, _))) => m,
                };
                if let Err(p) = guarded(|| node.cc.verif_process_message(msg)) {
                    return Err((format!("process_message panicked on datagram {} of the sequence: {p}", i + 1), format!("panic:{}", short_loc(&p))));
                }
            }
            CEv::Tick | CEv::AdvanceTick => {
                if matches!(alphabet[*e as usize].1, CEv::AdvanceTick) {
                    crate::clock::advance(Duration::from_secs(11));
                }
                if let Err(p) = guarded(|| {
                    node.cc.verif_update_nodes_liveness();
                    node.cc.verif_gc_keys_marked_for_deletion();
                }) {
                    return Err((format!("liveness evaluation / GC panicked after {} events: {p}", i + 1), format!("panic:{}", short_loc(&p))));
                }
            }
        }
        if last {
            if let Some(v) = check_invariants(&node, &before) {
                return Err(v);
            }
        }
    }
    let key = closure_key(&node);
    if probes {
        // closing probes on the state reached (the node is discarded afterwards)
        let r = guarded(|| {
            node.cc.verif_update_self_heartbeat();
            node.cc.verif_process_message(real::build_real(&Msg::BadCluster).unwrap());
            let syn = node.cc.verif_create_syn_message();
            // an honest peer's SYN must still be answerable
            node.cc.verif_process_message(syn);
        });
        if let Err(p) = r {
            return Err((format!("after the sequence, the node's own gossip step panicked: {p}"), format!("panic:{}", short_loc(&p))));
        }
    }
    Ok(key)
}

pub fn sequence_closure(tier: Tier, deadline: Instant) -> Part {
    let max_depth = 20usize;
    let mut part = Part::new("hostile/sequence-closure(depth<=20)");
    let alphabet = closure_alphabet(tier);
    part.rule = format!("explicit-state breadth-first search over sequences of up to {max_depth} events delivered to one real node, from each of the 6 base states; alphabet of {} events: ACK datagrams (member header alone or followed by one key-value / SetMaxVersion from a reduced hostile alphabet), SYN and SYN-ACK datagrams with a single hostile digest entry (the receiver itself / known / unknown member, extreme heartbeats and frontiers), liveness evaluation + GC now, and the same after 11 s; every path is re-executed from the base state on a fresh real node; states are deduplicated on (every copy's heartbeat, frontier and entries; live set; dead set) — the failure detector's windows and timers are not observable, so merging on this key can lose coverage but never raise an alarm; oracle on every transition: no panic in decoding / processing / evaluation, frontiers do not decrease, live and dead disjoint, the receiver stays live, and on every new state the node's own gossip step (heartbeat, a harmless datagram, creating and answering a SYN) does not panic; the search stops at a fixpoint (no new state) or at depth {max_depth}; non-trivial = distinct states", alphabet.len());
    part.bounds = json!({"alphabet": alphabet.len(), "max_depth": max_depth, "base_states": BASE_STATES});
    let mut seen: std::collections::HashSet<(usize, u128)> = Default::default();
    let mut frontier: Vec<(usize, Vec<u16>)> = vec![];
    let mut t0 = Tally::default();
    for base in 0..BASE_STATES {
        if let Ok(k) = closure_run(base, &alphabet, &[], false, &mut t0) {
            seen.insert((base, k));
            frontier.push((base, vec![]));
        }
    }
    let capped = std::sync::atomic::AtomicBool::new(false);
    let mut viols: Vec<Viol> = vec![];
    let mut depth_reached = 0usize;
    let mut fixpoint = false;
    let mut per_depth: Vec<usize> = vec![];
    for depth in 1..=max_depth {
        if frontier.is_empty() {
            fixpoint = true;
            break;
        }
        let results: Vec<(Tally, Vec<(usize, Vec<u16>, u128)>, Vec<Viol>)> = frontier
            .par_iter()
            .map(|(base, path)| {
                let mut t = Tally::default();
                let mut next = vec![];
                let mut v = vec![];
                for e in 0..alphabet.len() {
                    if Instant::now() > deadline {
                        capped.store(true, std::sync::atomic::Ordering::Relaxed);
                        break;
                    }
                    let mut p2 = path.clone();
                    p2.push(e as u16);
                    t.inc("transitions");
                    match closure_run(*base, &alphabet, &p2, false, &mut t) {
                        Ok(k) => next.push((*base, p2, k)),
                        Err((what, sig)) => {
                            if v.len() < 2 {
                                let names: Vec<&str> = p2.iter().map(|i| alphabet[*i as usize].0.as_str()).collect();
                                let events: Vec<Value> = p2.iter().map(|i| match &alphabet[*i as usize].1 {
                                    CEv::Datagram(b) => json!(hex(b)),
                                    CEv::Tick => json!("tick"),
                                    CEv::AdvanceTick => json!("advance-tick"),
                                }).collect();
                                v.push(Viol { what: format!("base state {base}, events {names:?}: {what}"), sig, replay: json!({"engine":"hostile","family":"closure","base":base,"names":names,"events":events}) });
                            }
                        }
                    }
                }
                (t, next, v)
            })
            .collect();
        let mut new_frontier = vec![];
        for (t, next, v) in results {
            part.tally.merge(&t);
            viols.extend(v);
            for (base, p, k) in next {
                if seen.insert((base, k)) {
                    new_frontier.push((base, p));
                }
            }
        }
        // closing probes once per new state
        let probe_results: Vec<(Tally, Option<Viol>)> = new_frontier
            .par_iter()
            .map(|(base, p)| {
                let mut t = Tally::default();
                match closure_run(*base, &alphabet, p, true, &mut t) {
                    Ok(_) => (Tally::default(), None),
                    Err((what, sig)) => {
                        let names: Vec<&str> = p.iter().map(|i| alphabet[*i as usize].0.as_str()).collect();
                        let events: Vec<Value> = p.iter().map(|i| match &alphabet[*i as usize].1 {
                            CEv::Datagram(b) => json!(hex(b)),
                            CEv::Tick => json!("tick"),
                            CEv::AdvanceTick => json!("advance-tick"),
                        }).collect();
                        (Tally::default(), Some(Viol { what: format!("base state {base}, events {names:?}: {what}"), sig, replay: json!({"engine":"hostile","family":"closure","base":base,"names":names,"events":events,"probes":true}) }))
                    }
                }
            })
            .collect();
        for (_, v) in probe_results {
            if let Some(v) = v {
                viols.push(v);
            }
        }
        depth_reached = depth;
        per_depth.push(new_frontier.len());
        frontier = new_frontier;
        if capped.load(std::sync::atomic::Ordering::Relaxed) || !viols.is_empty() {
            break;
        }
    }
    if frontier.is_empty() {
        fixpoint = true;
    }
    part.tally.add("distinct_states", seen.len() as u64);
    part.notes.push(format!("new states per depth: {per_depth:?}"));
    part.tally.add("max_depth_completed", depth_reached as u64);
    push(&mut part, viols);
    part.states = seen.len() as u64;
    part.transitions = part.tally.get("transitions");
    part.executions = part.tally.get("transitions");
    part.distinct_nontrivial = seen.len() as u64;
    if capped.load(std::sync::atomic::Ordering::Relaxed) {
        part.exhaustive = false;
        part.caps_hit.push(format!("wall cap during depth {} ({} states in the frontier); complete below that depth", depth_reached, frontier.len()));
    } else if fixpoint {
        part.notes.push(format!("fixpoint: no new state after depth {depth_reached}; every longer sequence over this alphabet ends in an explored state"));
    }
    part.sample(json!({"base_state": 3, "events": ["ACK[Node(known,gc=3,from=0) Kv(a,v5,s1)]", "tick", "SYN[known:hb=18446744073709551615,gc=0,mv=0]", "advance-11s-tick"]}));
    part.require("transitions");
    part
}

fn push(part: &mut Part, viols: Vec<Viol>) {
    let mut viols = viols;
    viols.sort_by_key(|v| v.replay.to_string().len());
    for v in viols {
        part.violation("C09", v.what, v.sig, v.replay);
    }
}

pub fn run(tier: Tier, started: Instant) -> Vec<Part> {
    let secs = |s: u64| started + Duration::from_secs(s);
    let mut parts = vec![];
    if std::env::var("CCMC_ONLY_CLOSURE").is_ok() {
        // development aid: run the closure part alone
        return vec![sequence_closure(tier, Instant::now() + Duration::from_secs(tier.pick(15, 2400)))];
    }

    let max_len = tier.pick(3, 4);
    let mut g = Part::new(&format!("hostile/op-grammar(len<={max_len})"));
    g.rule = format!("every op sequence of length <= {max_len} over the hostile alphabet (27 member headers: known / unknown / the receiver itself x watermark {{0,3,2^64-1}} x start {{0,1,3}}; 30 key-values: key {{a, é}} x version {{0,1,2,5,2^64-1}} x status; SetMaxVersion {{0,1,5,2^64-1}}) in ANY order, framed as ACK (and as SYN-ACK on a quarter of the cases), delivered to a real node in each of 6 base states (fresh; member known and empty; (0,2) with entries; mid-reset (3,1); (3,5) with a tombstone; member live in the failure detector and receiver owning a key); oracle: decoding does not panic, processing does not panic, frontiers do not decrease, live/dead disjoint, the receiver stays live, the node's next gossip tick, one more harmless datagram, a liveness evaluation, a GC pass and a SYN creation afterwards do not panic; non-trivial = datagrams accepted by the decoder");
    let (t, v, capped) = grammar(max_len, if tier == Tier::Quick { Instant::now() + Duration::from_secs(60) } else { secs(2400) });
    g.tally.merge(&t);
    push(&mut g, v);
    g.states = g.tally.get("sequences");
    g.transitions = g.tally.get("datagrams");
    g.executions = g.tally.get("datagrams");
    g.distinct_nontrivial = g.tally.get("decoded");
    g.exhaustive = !capped;
    if capped {
        g.caps_hit.push("wall cap".into());
    }
    g.sample(json!({"base_state": 4, "framing": "ACK", "ops": ["Node(known,gc=0,from=0)", "Kv(a,v5,s0)", "SetMax(1)"]}));
    g.require("decoded");
    g.require("rejected_by_decoder");
    parts.push(g);

    let mut d = Part::new("hostile/two-datagrams");
    d.rule = "every ordered pair of ACK datagrams whose delta is a member header alone or a member header followed by any one op of the hostile alphabet, delivered in sequence to the base states listed in the bounds (quick: the mid-reset copy; thorough: all six); same oracle".into();
    let bases: Vec<usize> = tier.pick(vec![3], (0..BASE_STATES).collect());
    d.bounds = json!({"base_states": bases});
    let (t, v, capped) = two_datagrams(&bases, if tier == Tier::Quick { Instant::now() + Duration::from_secs(60) } else { secs(3000) });
    d.tally.merge(&t);
    push(&mut d, v);
    d.states = d.tally.get("sequences");
    d.transitions = d.tally.get("datagrams");
    d.executions = d.tally.get("datagrams");
    d.distinct_nontrivial = d.tally.get("decoded");
    d.exhaustive = !capped;
    if capped {
        d.caps_hit.push("wall cap".into());
    }
    d.sample(json!({"base_state": 3, "datagrams": [["Node(known,gc=3,from=0)", "Kv(a,v5,s1)"], ["Node(known,gc=0,from=3)", "SetMax(1)"]]}));
    parts.push(d);

    let mut dg = Part::new("hostile/digest-grammar");
    dg.rule = "SYN (own and foreign cluster id) and SYN-ACK datagrams whose digest lists the receiver itself, a known or an unknown member with heartbeat {0, 1, 2^64-2, 2^64-1} and frontiers {(0,0), (2^64-1,0), (0,2^64-1), (3,1)}, alone or next to an entry of another member; every single datagram and every ordered pair (second one with a single-entry digest), delivered to each of the 6 base states; same oracle, which includes the node's next gossip tick and one more harmless datagram".into();
    let (t, v, capped) = digest_grammar(2, if tier == Tier::Quick { Instant::now() + Duration::from_secs(60) } else { secs(3200) });
    dg.tally.merge(&t);
    push(&mut dg, v);
    dg.states = dg.tally.get("sequences");
    dg.transitions = dg.tally.get("datagrams");
    dg.executions = dg.tally.get("datagrams");
    dg.distinct_nontrivial = dg.tally.get("decoded");
    dg.exhaustive = !capped;
    if capped {
        dg.caps_hit.push("wall cap".into());
    }
    dg.sample(json!({"base_state": 5, "datagrams": ["SYN[recv:hb=18446744073709551615,gc=0,mv=0]", "SYN-ACK[known:hb=1,gc=3,mv=1]"]}));
    parts.push(dg);

    let mut m = Part::new("hostile/byte-mutations");
    m.rule = "for each message of a corpus of valid datagrams (BadCluster, SYNs, ACK and SYN-ACK with header-only / key-values of every status / reset / SetMaxVersion / three members / spoofed receiver id, each under three block layouts, compressible and high-entropy bodies, several blocks, two real emissions): every truncation length, every single-byte replacement by {0x00, 0xFF, b^1, b^0x80} at every offset, every block-length field -1/+1/0/65535, trailing garbage; each mutant delivered to two base states; same oracle; non-trivial = mutants accepted by the decoder".into();
    // The sweep runs in child processes: a datagram that makes the decoder allocate absurdly aborts the
    // process (no unwinding), which must become a verdict, not a crash of the checker.
    let (t, v, capped, n) = mutations_in_children(tier, tier.pick(58, 3500));
    m.tally.merge(&t);
    m.bounds = json!({"corpus_messages": n, "child_processes": CHILDREN});
    push(&mut m, v);
    m.states = m.tally.get("mutants");
    m.transitions = m.tally.get("datagrams");
    m.executions = m.tally.get("datagrams");
    m.distinct_nontrivial = m.tally.get("decoded");
    m.exhaustive = !capped;
    if capped {
        m.caps_hit.push("wall cap".into());
    }
    m.sample(json!({"corpus": "ack-kvs-auto", "mutation": "byte 17: 0x01 -> 0x81"}));
    m.require("decoded");
    parts.push(m);
    parts.push(sequence_closure(tier, Instant::now() + Duration::from_secs(tier.pick(12, 2400))));
    parts
}

pub fn replay(v: &Value) -> Result<(), String> {
    let base = v["base"].as_u64().unwrap_or(0) as usize;
    if v["family"].as_str() == Some("closure") {
        let mut alphabet: Vec<(String, CEv)> = vec![];
        for e in v["events"].as_array().cloned().unwrap_or_default() {
            let ev = match e.as_str().unwrap_or("") {
                "tick" => CEv::Tick,
                "advance-tick" => CEv::AdvanceTick,
                h => CEv::Datagram(unhex(h)),
            };
            alphabet.push((String::new(), ev));
        }
        let path: Vec<u16> = (0..alphabet.len() as u16).collect();
        let mut t = Tally::default();
        // every prefix, so that the failing step is named
        for k in 1..=path.len() {
            if let Err((what, _)) = closure_run(base, &alphabet, &path[..k], k == path.len(), &mut t) {
                return Err(what);
            }
        }
        println!("{} events replayed on base state {base}", path.len());
        return Ok(());
    }
    let datagrams: Vec<Vec<u8>> = v["hex"].as_array().map(|a| a.iter().filter_map(|x| x.as_str().map(unhex)).collect()).unwrap_or_default();
    let mut t = Tally::default();
    match deliver_all(base, &datagrams, &mut t) {
        Some((what, _)) => Err(what),
        None => {
            println!("{} datagram(s) delivered to base state {base}: decoded {}, rejected {}", datagrams.len(), t.get("decoded"), t.get("rejected_by_decoder"));
            Ok(())
        }
    }
}
