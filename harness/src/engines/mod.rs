pub mod cluster;
pub mod kv;
pub mod pair;
pub mod wire;
