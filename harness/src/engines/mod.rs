pub mod cluster;
pub mod kv;
