pub mod catchup;
pub mod cluster;
pub mod hostile;
pub mod kv;
pub mod mtu;
pub mod pair;
pub mod wire;
