pub mod kv;
