//! `membership` — failure detector in the loop: quarantine, removal, no revival by stale gossip
//! (C12), the live-members watch channel (C13), convergence on dead members (C01).

use std::collections::BTreeMap;
use std::time::{Duration, Instant};

use chitchat::{FailureDetectorConfig, NodeState};
use rayon::prelude::*;
use serde_json::{json, Value};
use tokio::sync::watch;

use crate::codec::{self, Id};
use crate::node::{Node, NodeOpts};
use crate::real::{self, Meaning};
use crate::report::{Part, Tier};
use crate::util::{guarded, short_loc, Tally};

pub const GRACE_MS: u64 = 20_000;
const NAMES: [&str; 3] = ["A", "B", "X"];

#[derive(Clone, Copy, Debug, PartialEq, Eq, Hash, PartialOrd, Ord)]
pub enum Act {
    Tick5,
    Tick11,
    Hs(u8, u8),
    Eval(u8),
    /// replay a SYN captured during warm-up: (index into the capture list, destination)
    Replay(u8, u8),
    WriteReady(u8, bool),
    /// node sets key "t" / deletes it / runs its key GC (used by the roots that make a live
    /// member's copy go through a reset, which can lower its max version)
    SetT(u8),
    DelT(u8),
    GcKeys(u8),
}

impl Act {
    pub fn json(&self) -> Value {
        match self {
            Act::Tick5 => json!({"op":"tick","ms":5000}),
            Act::Tick11 => json!({"op":"tick","ms":11000}),
            Act::Hs(a, b) => json!({"op":"handshake","from":NAMES[*a as usize],"to":NAMES[*b as usize]}),
            Act::Eval(a) => json!({"op":"eval","node":NAMES[*a as usize]}),
            Act::Replay(i, to) => json!({"op":"replay-captured-syn","capture":i,"to":NAMES[*to as usize]}),
            Act::WriteReady(n, v) => json!({"op":"write","node":NAMES[*n as usize],"key":"READY","value":v}),
            Act::SetT(n) => json!({"op":"set-t","node":NAMES[*n as usize]}),
            Act::DelT(n) => json!({"op":"delete-t","node":NAMES[*n as usize]}),
            Act::GcKeys(n) => json!({"op":"gc-keys","node":NAMES[*n as usize]}),
        }
    }
    pub fn from_json(v: &Value) -> Option<Act> {
        let n = |k: &str| NAMES.iter().position(|x| Some(*x) == v[k].as_str()).map(|i| i as u8);
        Some(match v["op"].as_str()? {
            "tick" => {
                if v["ms"].as_u64()? == 5000 {
                    Act::Tick5
                } else {
                    Act::Tick11
                }
            }
            "handshake" => Act::Hs(n("from")?, n("to")?),
            "eval" => Act::Eval(n("node")?),
            "replay-captured-syn" => Act::Replay(v["capture"].as_u64()? as u8, n("to")?),
            "write" => Act::WriteReady(n("node")?, v["value"].as_bool()?),
            "set-t" => Act::SetT(n("node")?),
            "delete-t" => Act::DelT(n("node")?),
            "gc-keys" => Act::GcKeys(n("node")?),
            _ => return None,
        })
    }
    /// nodes whose state the action touches (for commutation pruning); None = global (clock)
    fn touches(&self) -> Option<Vec<u8>> {
        match self {
            Act::Tick5 | Act::Tick11 => None,
            Act::Hs(a, b) => Some(vec![*a, *b]),
            Act::Eval(a) => Some(vec![*a]),
            Act::Replay(_, to) => Some(vec![*to]),
            Act::WriteReady(n, _) | Act::SetT(n) | Act::DelT(n) | Act::GcKeys(n) => Some(vec![*n]),
        }
    }
}

#[derive(Clone, Copy, Debug, PartialEq, Eq)]
pub enum Root {
    /// X crashes after warm-up
    Crash,
    /// X stays up but can no longer talk to A
    Partition,
    /// Crash, then: tick 5s, A and B evaluate (X found dead), tick 11s (X quarantined at both)
    CrashQuarantined,
    /// Crash, then: tick 5s, A and B evaluate, tick 11s, tick 11s, A evaluates (A removed X; B has
    /// not evaluated since and still advertises X)
    CrashRemovedAtA,
    /// Crash; A and B keep gossiping (so they stay live for each other); A has removed X, B has never
    /// evaluated and still advertises X (with data A no longer has)
    CrashRemovedAtAKeepingB,
    /// Partition, and A has removed X (and B) while X kept heartbeating with B
    PartitionRemovedAtA,
    /// X stays up but only talks to A (B only talks to A as well): A is the hub
    Star,
    /// Star, then: B->A (B tells A all it knows), tick 5s, B->A twice, A evaluates: at A, B is live and X is dead
    StarBLiveXDead,
    /// Star, then X writes and deletes a key, collects the tombstone after the key grace period and
    /// gossips with A again: A's copy of the live member X was reset and its max version went DOWN
    StarXResetAtA,
    /// Star, and X has had two lives at A: silent until A removed it, back with higher heartbeats
    /// (re-created, live again, A told B about the new heartbeat), silent again until A removed it a
    /// second time; B never evaluated and still advertises X with the heartbeat of the second life
    StarRemovedTwiceAtA,
}

impl Root {
    fn prefix(self) -> Vec<Act> {
        match self {
            Root::Crash | Root::Partition | Root::Star => vec![],
            Root::StarBLiveXDead => vec![Act::Hs(1, 0), Act::Tick5, Act::Hs(1, 0), Act::Hs(1, 0), Act::Eval(0)],
            Root::StarXResetAtA => vec![Act::SetT(2), Act::Hs(2, 0), Act::Eval(0), Act::DelT(2), Act::Tick11, Act::GcKeys(2), Act::Hs(2, 0)],
            Root::StarRemovedTwiceAtA => vec![
                Act::Tick11, Act::Eval(0), Act::Tick11, Act::Tick11, Act::Eval(0), // first removal
                Act::Hs(2, 0), Act::Hs(2, 0), Act::Hs(2, 0), Act::Eval(0), // second life
                Act::Hs(0, 1), // B learns the second life's heartbeat
                Act::Tick11, Act::Eval(0), Act::Tick11, Act::Tick11, Act::Eval(0), // second removal
            ],
            Root::CrashQuarantined => vec![Act::Tick5, Act::Eval(0), Act::Eval(1), Act::Tick11],
            Root::CrashRemovedAtA => vec![Act::Tick5, Act::Eval(0), Act::Eval(1), Act::Tick11, Act::Tick11, Act::Eval(0)],
            Root::CrashRemovedAtAKeepingB => vec![Act::Hs(1, 0), Act::Tick5, Act::Hs(1, 0), Act::Hs(1, 0), Act::Eval(0), Act::Tick11, Act::Hs(1, 0), Act::Hs(1, 0), Act::Tick11, Act::Hs(1, 0), Act::Hs(1, 0), Act::Eval(0)],
            Root::PartitionRemovedAtA => vec![Act::Tick5, Act::Hs(2, 1), Act::Eval(0), Act::Eval(1), Act::Tick11, Act::Hs(2, 1), Act::Tick11, Act::Hs(2, 1), Act::Eval(0)],
        }
    }
    fn from_name(s: &str) -> Root {
        match s {
            "Partition" => Root::Partition,
            "CrashQuarantined" => Root::CrashQuarantined,
            "CrashRemovedAtA" => Root::CrashRemovedAtA,
            "PartitionRemovedAtA" => Root::PartitionRemovedAtA,
            "CrashRemovedAtAKeepingB" => Root::CrashRemovedAtAKeepingB,
            "Star" => Root::Star,
            "StarBLiveXDead" => Root::StarBLiveXDead,
            "StarXResetAtA" => Root::StarXResetAtA,
            "StarRemovedTwiceAtA" => Root::StarRemovedTwiceAtA,
            _ => Root::Crash,
        }
    }
}

pub struct MWorld {
    pub nodes: Vec<Node>,
    pub ids: Vec<Id>,
    pub now: u64,
    pub predicate: bool,
    pub captured: Vec<(Vec<u8>, String)>,
    watch: Vec<watch::Receiver<BTreeMap<chitchat::ChitchatId, NodeState>>>,
    /// per node, per member: time (ms) since which it has been dead at every evaluation
    dead_since: Vec<BTreeMap<Id, u64>>,
    /// per node, per member: heartbeat held when the member was removed
    removed_hb: Vec<BTreeMap<Id, u64>>,
    /// per node: members re-created since the last evaluation (must be dead at the next one)
    recreated: Vec<Vec<(Id, u32)>>,
    prev_watch_expectation: Vec<Option<BTreeMap<Id, u64>>>,
    pub tally: Tally,
    pub props: Vec<&'static str>,
}

pub type V = (&'static str, String, String);

fn fd_cfg() -> FailureDetectorConfig {
    FailureDetectorConfig::new(2.0, 1000, Duration::from_secs(2), Duration::from_secs(1), Duration::from_millis(GRACE_MS))
}

impl MWorld {
    pub fn new(predicate: bool, props: &[&'static str]) -> MWorld {
        let ids: Vec<Id> = vec![Id::v4("A", 1, 10_001), Id::v4("B", 1, 10_002), Id::v4("X", 1, 10_003)];
        let nodes: Vec<Node> = ids
            .iter()
            .map(|id| Node::new(id, &NodeOpts { fd: fd_cfg(), ready_predicate: predicate, initial_kvs: vec![("READY".into(), "true".into())], ..Default::default() }))
            .collect();
        // "NOHOLD": no receiver of the watch channel is kept between evaluations (a consumer that reads
        // the channel's current value on demand); the value is then read through a fresh receiver
        let watch = if props.contains(&"NOHOLD") { vec![] } else { nodes.iter().map(|n| n.cc.live_nodes_watcher()).collect() };
        MWorld {
            nodes,
            ids,
            now: 0,
            predicate,
            captured: vec![],
            watch,
            dead_since: vec![BTreeMap::new(); 3],
            removed_hb: vec![BTreeMap::new(); 3],
            recreated: vec![vec![]; 3],
            prev_watch_expectation: vec![None; 3],
            tally: Tally::default(),
            props: props.to_vec(),
        }
    }

    fn has(&self, p: &str) -> bool {
        self.props.contains(&p)
    }

    fn tick(&mut self, ms: u64) {
        crate::clock::advance(Duration::from_millis(ms));
        self.now += ms;
    }

    fn members(&self, i: usize) -> BTreeMap<Id, (u64, u64, u64)> {
        self.nodes[i].cc.node_states().iter().map(|(id, ns)| (real::from_real_id(id), (ns.heartbeat().into(), ns.last_gc_version(), ns.max_version()))).collect()
    }

    /// Checks a message emitted by node i: no mention of a member dead for more than grace/2.
    fn check_emitted(&mut self, i: usize, meaning: &Meaning) -> Option<V> {
        if !self.has("C12") && !self.has("C07") {
            return None;
        }
        let c07_only = !self.has("C12");
        for (m, since) in &self.dead_since[i] {
            if self.now - since > GRACE_MS / 2 {
                let in_digest = meaning.digest().iter().any(|e| &e.id == m);
                let in_delta = meaning.members().iter().any(|d| &d.id == m);
                self.tally.inc("messages_checked_while_a_member_is_quarantined");
                if c07_only {
                    // C07's clause is about deltas only
                    if in_delta {
                        return Some(("C07", format!("node {} includes {} in the delta of a {} although it is scheduled for deletion (dead for {} ms > grace/2)", NAMES[i], m.node_id, meaning.kind(), self.now - since), "scheduled-member-in-delta".into()));
                    }
                    continue;
                }
                if in_digest || in_delta {
                    return Some((
                        "C12",
                        format!("node {} mentions {} in the {} of a {} although it has been dead for {} ms (> grace/2)", NAMES[i], m.node_id, if in_digest { "digest" } else { "delta" }, meaning.kind(), self.now - since),
                        if in_digest { "quarantined-member-in-digest" } else { "quarantined-member-in-delta" }.into(),
                    ));
                }
            }
        }
        None
    }

    /// Delivers bytes to node `to`; returns the reply bytes.
    fn deliver(&mut self, to: usize, bytes: &[u8]) -> Result<Option<Vec<u8>>, V> {
        let (msg, _) = real::real_decode(bytes).map_err(|e| ("C12", format!("undecodable message: {e}"), "machinery".to_string()))?;
        let incoming = real::meaning_of_real(&msg);
        let before = self.members(to);
        let node = &mut self.nodes[to];
        // equal-staleness groups are put in id order (this engine does not enumerate their orders; with
        // small values every stale member fits in the delta whatever the order)
        chitchat::verif::arm_choices(vec![]);
        let reply = guarded(|| node.cc.verif_process_message(msg));
        chitchat::verif::disarm_choices();
        let reply = reply.map_err(|p| ("C12", format!("node {} panicked: {p}", NAMES[to]), format!("panic:{}", short_loc(&p))))?;
        let after = self.members(to);
        // re-creation guard
        for (m, _) in &after {
            if before.contains_key(m) {
                continue;
            }
            if let Some(h) = self.removed_hb[to].get(m).copied() {
                let carried = incoming.digest().iter().filter(|e| &e.id == m).map(|e| e.heartbeat).max();
                self.tally.inc("recreations_of_removed_members");
                if self.has("C12") && !carried.map(|c| c > h).unwrap_or(false) {
                    return Err((
                        "C12",
                        format!("node {} re-created removed member {} (heartbeat at removal {h}) from a message carrying heartbeat {:?}", NAMES[to], m.node_id, carried),
                        "revived-by-stale-gossip".into(),
                    ));
                }
                self.removed_hb[to].remove(m);
                self.recreated[to].push((m.clone(), 0));
            }
        }
        // fresh heartbeats seen by re-created members (they need two before they may be live again)
        for (m, fresh) in self.recreated[to].iter_mut() {
            if let (Some(b), Some(a)) = (before.get(m), after.get(m)) {
                if a.0 > b.0 {
                    *fresh += 1;
                }
            }
        }
        // a message that does not advertise a higher heartbeat for a removed member must leave it absent
        for (m, _) in &self.removed_hb[to] {
            if !after.contains_key(m) && incoming.digest().iter().any(|e| &e.id == m) {
                self.tally.inc("stale_advertisements_of_removed_members_refused");
            }
        }
        self.invariants(to)?;
        match reply {
            Some(r) => {
                let bytes = real::real_encode(&r);
                let meaning = real::meaning_of_real(&r);
                if let Some(v) = self.check_emitted(to, &meaning) {
                    return Err(v);
                }
                Ok(Some(bytes))
            }
            None => Ok(None),
        }
    }

    fn invariants(&self, i: usize) -> Result<(), V> {
        if !self.has("C12") {
            return Ok(());
        }
        let live: Vec<_> = self.nodes[i].cc.live_nodes().cloned().collect();
        let dead: Vec<_> = self.nodes[i].cc.dead_nodes().cloned().collect();
        if live.iter().any(|l| dead.contains(l)) {
            return Err(("C12", format!("node {}: a member is both live and dead", NAMES[i]), "live-dead-overlap".into()));
        }
        let me = &self.nodes[i].real_id;
        if !live.contains(me) || dead.contains(me) || self.nodes[i].cc.node_state(me).is_none() {
            return Err(("C12", format!("node {}: the local node is not live / was removed", NAMES[i]), "self-not-live".into()));
        }
        Ok(())
    }

    fn create_syn(&mut self, from: usize) -> Result<Vec<u8>, V> {
        let syn = self.nodes[from].cc.verif_create_syn_message();
        let meaning = real::meaning_of_real(&syn);
        if let Some(v) = self.check_emitted(from, &meaning) {
            return Err(v);
        }
        Ok(real::real_encode(&syn))
    }

    pub fn handshake(&mut self, from: usize, to: usize) -> Result<(), V> {
        // C01 (dead members): what should advance
        let before_from = self.members(from);
        let before_to = self.members(to);
        let sched_from: Vec<Id> = self.nodes[from].cc.scheduled_for_deletion_nodes().map(real::from_real_id).collect();
        let sched_to: Vec<Id> = self.nodes[to].cc.scheduled_for_deletion_nodes().map(real::from_real_id).collect();
        // like a gossip round, the initiator bumps its heartbeat first
        self.nodes[from].cc.verif_update_self_heartbeat();
        let syn = self.create_syn(from)?;
        let Some(synack) = self.deliver(to, &syn)? else { return Ok(()) };
        let Some(ack) = self.deliver(from, &synack)? else { return Ok(()) };
        self.deliver(to, &ack)?;
        if self.has("C01") {
            let after_from = self.members(from);
            let after_to = self.members(to);
            let all: std::collections::BTreeSet<Id> = before_from.keys().chain(before_to.keys()).cloned().collect();
            for m in all {
                let f = before_from.get(&m).map(|x| (x.1, x.2));
                let t = before_to.get(&m).map(|x| (x.1, x.2));
                let (fm, tm) = (f.map(|x| x.1).unwrap_or(0), t.map(|x| x.1).unwrap_or(0));
                if fm == tm {
                    continue;
                }
                // (holder, lagging side)
                let (holder_sched, holder_has, lag_removed, lag_sched, lag_before, lag_after, lag_name) = if fm > tm {
                    (sched_from.contains(&m), f.is_some(), self.removed_hb[to].contains_key(&m), sched_to.contains(&m), t, after_to.get(&m).map(|x| (x.1, x.2)), NAMES[to])
                } else {
                    (sched_to.contains(&m), t.is_some(), self.removed_hb[from].contains_key(&m), sched_from.contains(&m), f, after_from.get(&m).map(|x| (x.1, x.2)), NAMES[from])
                };
                // advertised = held and not scheduled for deletion at the holder; the lagging side must
                // not have removed the member (then the removed-member memory is meant to refuse it)
                // nor be about to (it does not list a member scheduled for deletion in its digest,
                // which makes the holder send everything from version 0: still an advance)
                if !holder_has || holder_sched || lag_removed {
                    continue;
                }
                let _ = lag_sched;
                self.tally.inc("handshakes_with_a_lagging_copy_of_an_advertised_member");
                if lag_after.unwrap_or((0, 0)) <= lag_before.unwrap_or((0, 0)) {
                    return Err(("C01", format!("complete handshake {}->{}: {}'s copy of {} stayed at {:?} although the peer advertises max version {}", NAMES[from], NAMES[to], lag_name, m.node_id, lag_before, fm.max(tm)), "no-progress-on-dead-member".into()));
                }
            }
        }
        Ok(())
    }

    pub fn eval(&mut self, i: usize) -> Result<(), V> {
        let before = self.members(i);
        let node = &mut self.nodes[i];
        guarded(|| node.cc.verif_update_nodes_liveness()).map_err(|p| ("C12", format!("evaluation panicked: {p}"), format!("panic:{}", short_loc(&p))))?;
        let after = self.members(i);
        let live: Vec<Id> = self.nodes[i].cc.live_nodes().map(real::from_real_id).collect();
        let dead: Vec<Id> = self.nodes[i].cc.dead_nodes().map(real::from_real_id).collect();
        self.invariants(i)?;
        let me = self.ids_of(i);
        // bookkeeping of removals (needed by every property's oracle)
        for (m, (hb, _, _)) in &before {
            if !after.contains_key(m) {
                self.tally.inc("removals");
                self.removed_hb[i].insert(m.clone(), *hb);
            }
        }
        if self.has("C12") {
            for m in after.keys() {
                if *m == me {
                    continue;
                }
                let (l, d) = (live.contains(m), dead.contains(m));
                if l == d {
                    return Err(("C12", format!("node {}: after an evaluation {} is in {} sets", NAMES[i], m.node_id, if l { "both" } else { "neither of the" }), "unclassified-after-evaluation".into()));
                }
            }
            // removal
            for (m, _) in &before {
                if after.contains_key(m) {
                    continue;
                }
                let since = self.dead_since[i].get(m).copied();
                match since {
                    Some(t) if self.now - t >= GRACE_MS => {}
                    other => {
                        return Err(("C12", format!("node {} removed {} although it was dead only since {:?} (now {})", NAMES[i], m.node_id, other, self.now), "removed-too-early".into()));
                    }
                }
            }
            // members re-created since the last evaluation go through the normal dead-to-live path:
            // without two further fresh heartbeats they are dead now
            for (m, fresh) in std::mem::take(&mut self.recreated[i]) {
                if after.contains_key(&m) && !dead.contains(&m) && fresh < 2 {
                    return Err(("C12", format!("node {}: re-created member {} is live at the next evaluation after only {fresh} further fresh heartbeats", NAMES[i], m.node_id), "recreated-member-not-dead".into()));
                }
            }
        }
        // bookkeeping of continuous death
        let mut new_since = BTreeMap::new();
        for m in &dead {
            if after.contains_key(m) {
                new_since.insert(m.clone(), self.dead_since[i].get(m).copied().unwrap_or(self.now));
            }
        }
        // due removals must have happened
        if self.has("C12") {
            for (m, t) in &new_since {
                if self.now - t >= GRACE_MS {
                    return Err(("C12", format!("node {}: {} dead for {} ms (>= grace) is still present after the evaluation", NAMES[i], m.node_id, self.now - t), "not-removed-after-grace".into()));
                }
            }
        }
        if new_since.values().any(|t| self.now - t > GRACE_MS / 2) {
            self.tally.inc("evaluations_with_a_quarantined_member");
        }
        self.dead_since[i] = new_since;

        // C13
        if self.has("C13") {
            let mut expected: BTreeMap<Id, u64> = BTreeMap::new();
            for m in live.iter() {
                let Some(ns) = self.nodes[i].cc.node_state(&real::to_real_id(m)) else { continue };
                if self.predicate && ns.get("READY") != Some("true") {
                    continue;
                }
                expected.insert(m.clone(), ns.max_version());
            }
            let (changed, held): (bool, BTreeMap<Id, u64>) = if self.watch.is_empty() {
                let rx = self.nodes[i].cc.live_nodes_watcher();
                let held = rx.borrow().iter().map(|(id, ns)| (real::from_real_id(id), ns.max_version())).collect();
                (true, held)
            } else {
                let rx = &mut self.watch[i];
                let changed = rx.has_changed().unwrap_or(false);
                (changed, rx.borrow_and_update().iter().map(|(id, ns)| (real::from_real_id(id), ns.max_version())).collect())
            };
            self.tally.inc("c13_evaluations_checked");
            if held != expected {
                return Err((
                    "C13",
                    format!("node {}: watch channel holds {:?}, evaluated membership is {:?}", NAMES[i], held.iter().map(|(k, v)| (k.node_id.clone(), *v)).collect::<Vec<_>>(), expected.iter().map(|(k, v)| (k.node_id.clone(), *v)).collect::<Vec<_>>()),
                    "watch-value-stale".into(),
                ));
            }
            // publication: compare the unfiltered live set + versions with the previous evaluation
            let mut current: BTreeMap<Id, u64> = BTreeMap::new();
            for m in live.iter() {
                if let Some(ns) = self.nodes[i].cc.node_state(&real::to_real_id(m)) {
                    current.insert(m.clone(), ns.max_version());
                }
            }
            if let Some(prev) = &self.prev_watch_expectation[i] {
                if prev != &current {
                    self.tally.inc("c13_membership_changes");
                    if !changed {
                        return Err(("C13", format!("node {}: the live set or a live member's max version changed but nothing was published", NAMES[i]), "publication-missed".into()));
                    }
                }
            }
            self.prev_watch_expectation[i] = Some(current);
        }
        Ok(())
    }

    fn ids_of(&self, i: usize) -> Id {
        self.ids[i].clone()
    }

    /// Handshake without any check or re-encoding (used to replay the warm-up cheaply; the checked
    /// warm-up is executed once per exploration).
    fn handshake_fast(&mut self, from: usize, to: usize) {
        self.nodes[from].cc.verif_update_self_heartbeat();
        let syn = self.nodes[from].cc.verif_create_syn_message();
        let Some(synack) = self.nodes[to].cc.verif_process_message(syn) else { return };
        let Some(ack) = self.nodes[from].cc.verif_process_message(synack) else { return };
        self.nodes[to].cc.verif_process_message(ack);
    }

    /// Deterministic warm-up: everyone live everywhere; X writes a last value only B learns.
    pub fn warm_up(&mut self, root: Root, checked: bool) -> Result<(), V> {
        for round in 0..4 {
            self.tick(1000);
            for (a, b) in [(0, 1), (1, 2), (2, 0), (0, 2), (1, 0), (2, 1)] {
                if checked {
                    self.handshake(a, b)?;
                } else {
                    self.handshake_fast(a, b);
                }
            }
            for i in 0..3 {
                self.eval(i)?;
            }
            if round == 1 {
                // stale SYNs for later replay: one from X, one from B (mentions X)
                let s = self.create_syn(2)?;
                self.captured.push((s, "SYN of X".into()));
                let s = self.create_syn(1)?;
                self.captured.push((s, "SYN of B".into()));
            }
        }
        // X's last write reaches B only
        self.nodes[2].cc.self_node_state().set("k", "last");
        if checked {
            self.handshake(2, 1)?;
        } else {
            self.handshake_fast(2, 1);
        }
        let s = self.create_syn(1)?;
        self.captured.push((s, "late SYN of B".into()));
        let _ = root;
        Ok(())
    }

    pub fn apply(&mut self, a: &Act) -> Result<(), V> {
        match a {
            Act::Tick5 => self.tick(5000),
            Act::Tick11 => self.tick(11000),
            Act::Hs(x, y) => self.handshake(*x as usize, *y as usize)?,
            Act::Eval(i) => self.eval(*i as usize)?,
            Act::Replay(c, to) => {
                let bytes = self.captured[*c as usize].0.clone();
                self.deliver(*to as usize, &bytes)?;
            }
            Act::WriteReady(n, v) => {
                self.nodes[*n as usize].cc.self_node_state().set("READY", if *v { "true" } else { "false" });
            }
            Act::SetT(n) => self.nodes[*n as usize].cc.self_node_state().set("t", "tmp"),
            Act::DelT(n) => self.nodes[*n as usize].cc.self_node_state().delete("t"),
            Act::GcKeys(n) => self.nodes[*n as usize].cc.verif_gc_keys_marked_for_deletion(),
        }
        Ok(())
    }
}

pub fn alphabet(root: Root) -> Vec<Act> {
    let mut v = vec![Act::Tick5, Act::Tick11, Act::Hs(0, 1), Act::Hs(1, 0), Act::Eval(0), Act::Eval(1), Act::Replay(0, 0), Act::Replay(1, 0), Act::Replay(2, 0), Act::WriteReady(1, false), Act::WriteReady(1, true)];
    if root == Root::Partition || root == Root::PartitionRemovedAtA {
        v.push(Act::Hs(2, 1));
        v.push(Act::Hs(1, 2));
    }
    if root == Root::Star || root == Root::StarBLiveXDead || root == Root::StarXResetAtA || root == Root::StarRemovedTwiceAtA {
        v.push(Act::Hs(2, 0));
        v.push(Act::Hs(0, 2));
    }
    v
}

/// Runs warm-up + sequence with the oracles on; Ok(tally) or the violation and the failing step.
pub fn run_sequence(root: Root, predicate: bool, props: &[&'static str], seq: &[Act]) -> Result<Tally, (V, usize)> {
    let mut w = MWorld::new(predicate, props);
    // the warm-up itself is checked when the empty sequence is run (once per exploration)
    w.warm_up(root, seq.is_empty()).map_err(|v| (v, 0))?;
    for a in root.prefix() {
        w.apply(&a).map_err(|v| (v, 0))?;
    }
    w.tally = Tally::default();
    for (i, a) in seq.iter().enumerate() {
        w.apply(a).map_err(|v| (v, i + 1))?;
    }
    // closing evaluations so that every history ends with classification / watch checks
    Ok(w.tally)
}

pub fn explore(root: Root, predicate: bool, props: &[&'static str], depth: usize, deadline: Instant) -> Part {
    let mut part = Part::new(&format!("membership/{:?}{}{}(depth<={depth})", root, if predicate { "+predicate" } else { "" }, if props.contains(&"NOHOLD") { "+no-receiver-held" } else { "" }));
    let alpha = alphabet(root);
    part.rule = format!("three real nodes A, B, X (phi 2, intervals 1s/2s, dead-node grace 20s); deterministic warm-up of 4 gossip rounds makes everyone live everywhere, X's last write reaches B only; then {}; every sequence of length <= {depth} over {{tick 5s, tick 11s, handshake A->B, B->A, evaluate A, evaluate B, replay one of three SYNs captured during warm-up to A, B writes READY=false/true{}}} is executed from the root with the oracles on every step (adjacent actions on disjoint nodes are explored in one order only); non-trivial = sequences in which a member was quarantined, removed or re-advertised", match root { Root::Crash => "X crashes", Root::Partition => "X stays up but only talks to B", Root::CrashQuarantined => "X crashes and (tick 5s, A and B evaluate, tick 11s) X is quarantined at both survivors", Root::CrashRemovedAtA => "X crashes and (tick 5s, A and B evaluate, tick 11s, tick 11s, A evaluates) A has removed X while B still advertises it", Root::CrashRemovedAtAKeepingB => "X crashes; A and B keep gossiping; after 27s A has removed X while B, which never evaluated, still advertises it", Root::PartitionRemovedAtA => "X stays up but only talks to B, and after 27s without any contact A has removed X (and B) while X kept heartbeating with B", Root::Star => "X stays up but only talks to A", Root::StarBLiveXDead => "X stays up but only talks to A, and (B->A, tick 5s, B->A twice, A evaluates) A holds B live and X dead", Root::StarRemovedTwiceAtA => "X only talks to A and has had two lives there: removed by A after 22s of silence, back with higher heartbeats (re-created, A told B), removed a second time; B never evaluated and still advertises X with the second life's heartbeat", Root::StarXResetAtA => "X stays up but only talks to A; X set and deleted a key, collected the tombstone 11s later and gossiped with A, whose copy of X was reset to a LOWER max version" }, if root == Root::Partition || root == Root::PartitionRemovedAtA { ", handshake X->B, B->X" } else if root == Root::Star || root == Root::StarBLiveXDead || root == Root::StarXResetAtA || root == Root::StarRemovedTwiceAtA { ", handshake X->A, A->X" } else { "" });
    part.bounds = json!({"alphabet": alpha.iter().map(|a| a.json()).collect::<Vec<_>>(), "depth": depth, "grace_ms": GRACE_MS});
    let capped = std::sync::atomic::AtomicBool::new(false);
    let prefixes: Vec<Vec<Act>> = alpha.iter().flat_map(|a| alpha.iter().map(move |b| vec![*a, *b])).collect();
    struct Out {
        tally: Tally,
        viols: Vec<(V, Vec<Act>)>,
        sample: Option<Vec<Act>>,
    }
    let canonical = |seq: &[Act]| -> bool {
        // commutation pruning: of two adjacent actions touching disjoint node sets (none moving the
        // clock), only the alphabet-ordered arrangement is explored
        for w in seq.windows(2) {
            if let (Some(x), Some(y)) = (w[0].touches(), w[1].touches()) {
                if x.iter().all(|n| !y.contains(n)) && w[0] > w[1] {
                    return false;
                }
            }
        }
        true
    };
    let results: Vec<Out> = prefixes
        .par_iter()
        .map(|prefix| {
            let mut out = Out { tally: Tally::default(), viols: vec![], sample: None };
            if !canonical(prefix) {
                out.tally.inc("pruned_by_commutation");
                return out;
            }
            let mut stack = vec![prefix.clone()];
            while let Some(seq) = stack.pop() {
                if Instant::now() > deadline {
                    capped.store(true, std::sync::atomic::Ordering::Relaxed);
                    break;
                }
                out.tally.inc("sequences");
                match run_sequence(root, predicate, props, &seq) {
                    Ok(t) => {
                        if t.get("removals") > 0 || t.get("messages_checked_while_a_member_is_quarantined") > 0 || t.get("stale_advertisements_of_removed_members_refused") > 0 {
                            out.tally.inc("nontrivial_sequences");
                            if out.sample.is_none() && t.get("stale_advertisements_of_removed_members_refused") > 0 {
                                out.sample = Some(seq.clone());
                            }
                        }
                        // event counters of the last step only would need a diff; accumulate maxima instead
                        for (k, v) in &t.0 {
                            out.tally.max(leak_max(k), *v);
                        }
                        if t.get("removals") > 0 {
                            out.tally.inc("sequences_with_a_removal");
                        }
                        if t.get("recreations_of_removed_members") > 0 {
                            out.tally.inc("sequences_with_a_recreation");
                        }
                        if t.get("stale_advertisements_of_removed_members_refused") > 0 {
                            out.tally.inc("sequences_with_a_refused_stale_advertisement");
                        }
                        if t.get("c13_membership_changes") > 0 {
                            out.tally.inc("sequences_with_a_membership_change");
                        }
                        if t.get("handshakes_with_a_lagging_copy_of_an_advertised_member") > 0 {
                            out.tally.inc("sequences_with_progress_obligation");
                        }
                    }
                    Err((v, at)) => {
                        // the violation is attributed to the shortest failing prefix
                        if at == seq.len() && out.viols.len() < 3 {
                            out.viols.push((v, seq.clone()));
                        }
                        continue; // do not extend a failing sequence
                    }
                }
                if seq.len() < depth {
                    for a in alpha.iter().rev() {
                        let mut s = seq.clone();
                        s.push(*a);
                        if canonical(&s[s.len() - 2..]) {
                            stack.push(s);
                        } else {
                            out.tally.inc("pruned_by_commutation");
                        }
                    }
                }
            }
            out
        })
        .collect();
    // the checked warm-up (empty sequence), then length-1 sequences
    let mut viols: Vec<(V, Vec<Act>)> = vec![];
    part.tally.inc("sequences");
    if let Err((v, _)) = run_sequence(root, predicate, props, &[]) {
        viols.push((v, vec![]));
    }
    for a in &alpha {
        part.tally.inc("sequences");
        if let Err((v, _)) = run_sequence(root, predicate, props, &[*a]) {
            viols.push((v, vec![*a]));
        }
    }
    for o in results {
        part.tally.merge(&o.tally);
        viols.extend(o.viols);
        if let Some(s) = o.sample {
            part.sample(json!(s.iter().map(|a| a.json()).collect::<Vec<_>>()));
        }
    }
    viols.sort_by_key(|(_, s)| s.len());
    for ((p, what, sig), seq) in viols {
        part.violation(p, format!("{what} [after warm-up + {:?}]", seq), sig, json!({"engine":"membership","root":format!("{root:?}"),"predicate":predicate,"actions":seq.iter().map(|a| a.json()).collect::<Vec<_>>()}));
    }
    part.states = part.tally.get("sequences");
    part.transitions = part.tally.get("sequences");
    part.executions = part.tally.get("sequences");
    part.distinct_nontrivial = part.tally.get("nontrivial_sequences").max(part.tally.get("sequences_with_a_membership_change")).max(part.tally.get("sequences_with_progress_obligation"));
    if capped.load(std::sync::atomic::Ordering::Relaxed) {
        part.exhaustive = false;
        part.caps_hit.push("wall cap: not every sequence of the maximal depth was executed".into());
    }
    part
}

fn leak_max(k: &str) -> &'static str {
    // counters reported as "max over sequences"
    match k {
        "removals" => "max_removals_in_one_sequence",
        "recreations_of_removed_members" => "max_recreations_in_one_sequence",
        "messages_checked_while_a_member_is_quarantined" => "max_messages_checked_while_quarantined_in_one_sequence",
        "c13_evaluations_checked" => "max_c13_evaluations_in_one_sequence",
        _ => "max_other",
    }
}

// ------------------------------------------------------------------ the two time boundaries, to the millisecond

/// X falls silent; A finds it dead at an evaluation at t0. Evaluations and handshakes are then
/// placed exactly on and around t0 + grace/2 and t0 + grace.
pub fn grace_boundaries() -> Part {
    let mut part = Part::new("membership/grace-boundaries");
    part.rule = "two real nodes A and X (dead-node grace 20 s); X falls silent and A finds it dead at an evaluation at t0; then, for every offset d in {grace/2 - 1 ms, grace/2, grace/2 + 1 ms}: at t0 + d A's SYN digest and SYN-ACK reply must still list X up to and including grace/2 and must no longer list it after; for every offset in {grace - 1 ms, grace, grace + 1 ms}: an evaluation at t0 + offset must keep X before the grace period is over and must have removed it at exactly the grace period and after".into();
    let opts = NodeOpts { fd: fd_cfg(), ..Default::default() };
    let setup = || -> (Node, Node) {
        let mut a = Node::new(&Id::v4("A", 1, 10_001), &opts);
        let mut x = Node::new(&Id::v4("X", 1, 10_003), &opts);
        for _ in 0..4 {
            for (f, t) in [(0, 1), (1, 0)] {
                let (from, to) = if f == 0 { (&mut a, &mut x) } else { (&mut x, &mut a) };
                let _ = t;
                from.cc.verif_update_self_heartbeat();
                let syn = from.cc.verif_create_syn_message();
                if let Some(sa) = to.cc.verif_process_message(syn) {
                    if let Some(ack) = from.cc.verif_process_message(sa) {
                        to.cc.verif_process_message(ack);
                    }
                }
            }
            crate::clock::advance(Duration::from_secs(1));
            a.cc.verif_update_nodes_liveness();
        }
        // X falls silent: 11 s later A finds it dead (t0)
        crate::clock::advance(Duration::from_secs(11));
        a.cc.verif_update_nodes_liveness();
        (a, x)
    };
    let xid = real::to_real_id(&Id::v4("X", 1, 10_003));
    let mut cases = 0u64;
    // quarantine boundary
    for (d, must_list) in [(GRACE_MS / 2 - 1, true), (GRACE_MS / 2, true), (GRACE_MS / 2 + 1, false)] {
        cases += 1;
        let (mut a, _x) = setup();
        if !a.cc.dead_nodes().any(|n| *n == xid) {
            part.notes.push("MACHINERY: X was not found dead at t0".into());
            continue;
        }
        crate::clock::advance(Duration::from_millis(d));
        let syn = a.cc.verif_create_syn_message();
        let listed_syn = real::meaning_of_real(&syn).digest().iter().any(|e| e.id.node_id == "X");
        let probe = real::build_real(&crate::codec::Msg::Syn { digest: vec![], cluster_id: "c".into() });
        let listed_reply = match probe.ok().and_then(|m| a.cc.verif_process_message(m)) {
            Some(r) => {
                let mean = real::meaning_of_real(&r);
                mean.digest().iter().any(|e| e.id.node_id == "X") || mean.members().iter().any(|m| m.id.node_id == "X")
            }
            None => false,
        };
        part.tally.inc("boundary_probes");
        if must_list && !listed_syn {
            part.violation("C12", format!("X dead for {d} ms (<= grace/2 = {} ms) is already left out of A's SYN digest", GRACE_MS / 2), "quarantined-too-early".into(), json!({"root":"boundaries","offset_ms":d}));
        }
        if !must_list && (listed_syn || listed_reply) {
            part.violation("C12", format!("X dead for {d} ms (> grace/2 = {} ms) is still mentioned by A (syn digest: {listed_syn}, reply: {listed_reply})", GRACE_MS / 2), "mentioned-after-half-grace".into(), json!({"root":"boundaries","offset_ms":d}));
        }
    }
    // removal boundary
    for (d, must_be_gone) in [(GRACE_MS - 1, false), (GRACE_MS, true), (GRACE_MS + 1, true)] {
        cases += 1;
        let (mut a, _x) = setup();
        crate::clock::advance(Duration::from_millis(d));
        a.cc.verif_update_nodes_liveness();
        let present = a.cc.node_state(&xid).is_some();
        part.tally.inc("boundary_probes");
        if must_be_gone && present {
            part.violation("C12", format!("X dead at every evaluation for {d} ms (grace period {GRACE_MS} ms) is still present after the evaluation"), "not-removed-after-grace".into(), json!({"root":"boundaries","offset_ms":d}));
        }
        if !must_be_gone && !present {
            part.violation("C12", format!("X dead for {d} ms only (grace period {GRACE_MS} ms) was already removed"), "removed-too-early".into(), json!({"root":"boundaries","offset_ms":d}));
        }
    }
    part.states = cases;
    part.transitions = cases;
    part.executions = cases;
    part.distinct_nontrivial = cases;
    part.sample(json!({"offset_ms": GRACE_MS}));
    part.require("boundary_probes");
    part
}

// ------------------------------------------------------------------ a member restarted under a new generation

/// A crashed and came back with the same node id and address and a higher generation; B still
/// advertises the old incarnation. On the restarted node the old incarnation is an ordinary other
/// member: classified at every evaluation, removed after the grace period.
pub fn restart_part(tier: Tier) -> Part {
    let depth = tier.pick(5usize, 7usize);
    let mut part = Part::new(&format!("membership/restarted-under-a-new-generation(depth<={depth})"));
    part.rule = format!("two real nodes A#1 and B gossip until live for each other; A crashes and restarts as A#2 (same node id and address, generation 2), B still knows A#1; every sequence of length <= {depth} over {{handshake B->A#2, A#2->B, evaluate A#2, evaluate B, tick 5s, tick 11s}}; oracle after every evaluation of A#2 (and of B): live and dead disjoint, the node itself live, every other known member — the node's own former incarnation included — in exactly one of the two sets; a member dead at every evaluation for the full grace period (20 s) is gone after the next evaluation; non-trivial = sequences in which A#2 knows A#1");
    #[derive(Clone, Copy, Debug, PartialEq)]
    enum E {
        HsBA,
        HsAB,
        EvalA,
        EvalB,
        Tick5,
        Tick11,
    }
    let alpha = [E::HsBA, E::HsAB, E::EvalA, E::EvalB, E::Tick5, E::Tick11];
    let mut seqs: Vec<Vec<E>> = vec![vec![]];
    let mut layer: Vec<Vec<E>> = vec![vec![]];
    for _ in 0..depth {
        let mut next = vec![];
        for q in &layer {
            for e in alpha {
                let mut q2 = q.clone();
                q2.push(e);
                next.push(q2);
            }
        }
        seqs.extend(next.iter().cloned());
        layer = next;
    }
    let seqs: Vec<Vec<E>> = seqs.into_iter().filter(|q| q.len() == depth).collect();
    fn hs(from: &mut Node, to: &mut Node) {
        chitchat::verif::arm_choices(vec![]);
        from.cc.verif_update_self_heartbeat();
        let syn = from.cc.verif_create_syn_message();
        if let Some(synack) = to.cc.verif_process_message(syn) {
            if let Some(ack) = from.cc.verif_process_message(synack) {
                to.cc.verif_process_message(ack);
            }
        }
        chitchat::verif::disarm_choices();
    }
    let results: Vec<(Tally, Option<(String, String, Vec<E>)>)> = seqs
        .par_iter()
        .map(|seq| {
            let mut t = Tally::default();
            t.inc("sequences");
            let opts = NodeOpts { fd: fd_cfg(), ..Default::default() };
            let mut a1 = Node::new(&Id::v4("A", 1, 10_001), &opts);
            let mut b = Node::new(&Id::v4("B", 1, 10_002), &opts);
            for _ in 0..4 {
                hs(&mut a1, &mut b);
                hs(&mut b, &mut a1);
                crate::clock::advance(Duration::from_secs(1));
                a1.cc.verif_update_nodes_liveness();
                b.cc.verif_update_nodes_liveness();
            }
            drop(a1);
            let mut a2 = Node::new(&Id::v4("A", 2, 10_001), &opts);
            let mut now = 0u64;
            // per node (0 = A#2, 1 = B): member -> time since which it was dead at every evaluation
            let mut dead_since: [BTreeMap<Id, u64>; 2] = [BTreeMap::new(), BTreeMap::new()];
            let mut knew_old = false;
            let r = guarded(|| -> Option<(String, String)> {
                for e in seq {
                    match e {
                        E::HsBA => hs(&mut b, &mut a2),
                        E::HsAB => hs(&mut a2, &mut b),
                        E::Tick5 => {
                            crate::clock::advance(Duration::from_secs(5));
                            now += 5_000;
                        }
                        E::Tick11 => {
                            crate::clock::advance(Duration::from_secs(11));
                            now += 11_000;
                        }
                        E::EvalA | E::EvalB => {
                            let (i, n, name) = if *e == E::EvalA { (0usize, &mut a2, "A#2") } else { (1usize, &mut b, "B") };
                            let due: Vec<Id> = dead_since[i].iter().filter(|(_, t)| now - **t >= GRACE_MS).map(|(m, _)| m.clone()).collect();
                            n.cc.verif_update_nodes_liveness();
                            let me = n.real_id.clone();
                            let live: Vec<Id> = n.cc.live_nodes().map(real::from_real_id).collect();
                            let dead: Vec<Id> = n.cc.dead_nodes().map(real::from_real_id).collect();
                            if live.iter().any(|l| dead.contains(l)) {
                                return Some((format!("{name}: a member is both live and dead"), "live-dead-overlap".into()));
                            }
                            if !live.contains(&real::from_real_id(&me)) {
                                return Some((format!("{name}: the node itself is not live"), "self-not-live".into()));
                            }
                            let members: Vec<Id> = n.cc.node_states().keys().filter(|k| **k != me).map(real::from_real_id).collect();
                            for m in &members {
                                if live.contains(m) == dead.contains(m) {
                                    return Some((format!("{name}: known member {}#{} is in neither the live nor the dead set after an evaluation", m.node_id, m.generation), "unclassified".into()));
                                }
                            }
                            for m in &due {
                                // (a member that received fresh heartbeats and is live at this evaluation
                                // has not been dead for the whole period: it legitimately stays)
                                if members.contains(m) && dead.contains(m) {
                                    return Some((format!("{name}: {}#{} was dead at every evaluation for {} ms (>= grace) and is still present after the evaluation", m.node_id, m.generation, now - dead_since[i][m]), "not-removed-after-grace".into()));
                                }
                            }
                            let mut next = BTreeMap::new();
                            for m in &dead {
                                if members.contains(m) {
                                    next.insert(m.clone(), dead_since[i].get(m).copied().unwrap_or(now));
                                }
                            }
                            dead_since[i] = next;
                            if i == 0 && members.iter().any(|m| m.node_id == "A" && m.generation == 1) {
                                knew_old = true;
                            }
                        }
                    }
                }
                None
            });
            if knew_old {
                t.inc("sequences_in_which_the_restarted_node_knows_its_former_incarnation");
            }
            match r {
                Ok(None) => (t, None),
                Ok(Some((what, sig))) => (t, Some((what, sig, seq.clone()))),
                Err(p) => (t, Some((format!("panic: {p}"), format!("panic:{}", short_loc(&p)), seq.clone()))),
            }
        })
        .collect();
    let mut viols = vec![];
    for (t, v) in results {
        part.tally.merge(&t);
        if let Some(x) = v {
            viols.push(x);
        }
    }
    viols.sort_by_key(|(_, _, q)| q.iter().position(|e| matches!(e, E::EvalA | E::EvalB)).unwrap_or(99));
    for (what, sig, q) in viols.into_iter().take(20) {
        part.violation("C12", format!("{what} [after the restart: {q:?}]"), sig, json!({"root":"restart","actions": q.iter().map(|e| format!("{e:?}")).collect::<Vec<_>>()}));
    }
    part.states = part.tally.get("sequences");
    part.transitions = part.tally.get("sequences") * depth as u64;
    part.executions = part.tally.get("sequences");
    part.distinct_nontrivial = part.tally.get("sequences_in_which_the_restarted_node_knows_its_former_incarnation");
    part.sample(json!(["HsBA", "EvalA", "Tick11", "EvalA", "Tick11"]));
    part.require("sequences_in_which_the_restarted_node_knows_its_former_incarnation");
    part
}

/// The removed-member memory holds 500 entries: walk 500 members through removal on one node and
/// re-advertise the first and the last with their old heartbeat.
pub fn lru_walk() -> Part {
    let mut part = Part::new("membership/removed-member-memory(500)");
    part.rule = "one real node learns 500 members from one digest, finds them dead, removes them after the grace period, and is then shown the first and the 500th again with the heartbeat it knew (and with a higher one): the former must not re-create them, the latter must, and the re-created member must be dead at the next evaluation".into();
    let mut node = Node::new(&Id::v4("A", 1, 10_001), &NodeOpts { fd: fd_cfg(), ..Default::default() });
    let ids: Vec<Id> = (0..500).map(|i| Id::v4(&format!("m{i:03}"), 1, 20_000 + i as u16)).collect();
    let digest = |sel: &[usize], hb: u64| -> chitchat::ChitchatMessage {
        real::build_real(&codec::Msg::Syn { digest: sel.iter().map(|i| codec::DigestEntry { id: ids[*i].clone(), heartbeat: hb, gc: 0, mv: 0 }).collect(), cluster_id: "c".into() }).unwrap()
    };
    let all: Vec<usize> = (0..500).collect();
    let fail = |part: &mut Part, what: String, sig: &str| part.violation("C12", what, sig.into(), json!({"engine":"membership","root":"lru"}));
    node.cc.verif_process_message(digest(&all, 7));
    node.cc.verif_update_nodes_liveness();
    crate::clock::advance(Duration::from_millis(GRACE_MS + 1));
    node.cc.verif_update_nodes_liveness();
    part.transitions = 4;
    if node.cc.node_states().len() != 1 {
        fail(&mut part, format!("{} members still present after the grace period", node.cc.node_states().len() - 1), "not-removed-after-grace");
    }
    for probe in [0usize, 499, 250] {
        node.cc.verif_process_message(digest(&[probe], 7));
        node.cc.verif_process_message(digest(&[probe], 3));
        part.transitions += 2;
        if node.cc.node_state(&real::to_real_id(&ids[probe])).is_some() {
            fail(&mut part, format!("removed member #{probe} re-created by its old heartbeat"), "revived-by-stale-gossip");
        }
    }
    for probe in [0usize, 499] {
        node.cc.verif_process_message(digest(&[probe], 8));
        part.transitions += 1;
        if node.cc.node_state(&real::to_real_id(&ids[probe])).is_none() {
            fail(&mut part, format!("removed member #{probe} not re-created by a higher heartbeat"), "higher-heartbeat-ignored");
        }
    }
    node.cc.verif_update_nodes_liveness();
    let dead: Vec<Id> = node.cc.dead_nodes().map(real::from_real_id).collect();
    for probe in [0usize, 499] {
        if !dead.contains(&ids[probe]) {
            fail(&mut part, format!("re-created member #{probe} is not dead at the next evaluation"), "recreated-member-not-dead");
        }
    }
    part.states = 500;
    part.executions = 1;
    part.distinct_nontrivial = 500;
    part.sample(json!({"members": 500, "probes": [0, 499, 250]}));
    part
}

pub fn run(property: &'static str, tier: Tier, started: Instant) -> Vec<Part> {
    let props = [property];
    let depth = tier.pick(5usize, 6usize);
    let depth2 = tier.pick(5usize, 6usize);
    let budget = if property == "C01" { tier.pick(55u64, 1500u64) } else { tier.pick(55u64, 3500u64) };
    let mut parts = vec![];
    let mut plan: Vec<(Root, bool, usize)> = match property {
        "C13" => vec![(Root::Crash, false, depth), (Root::Crash, true, depth), (Root::Partition, true, depth), (Root::Partition, false, depth), (Root::CrashRemovedAtA, true, depth2), (Root::Star, false, depth), (Root::StarBLiveXDead, false, depth2), (Root::StarBLiveXDead, true, depth2), (Root::StarXResetAtA, false, depth2)],
        _ => vec![(Root::Crash, false, depth), (Root::Partition, false, depth), (Root::CrashQuarantined, false, depth2), (Root::CrashRemovedAtA, false, depth2), (Root::CrashRemovedAtAKeepingB, false, depth2 - 1), (Root::PartitionRemovedAtA, false, depth2 - 1), (Root::StarRemovedTwiceAtA, false, depth2 - 2)],
    };
    if tier == Tier::Quick && property == "C13" {
        plan = vec![(Root::Crash, false, depth), (Root::Crash, true, depth), (Root::Partition, true, depth), (Root::CrashRemovedAtA, true, depth2 - 1), (Root::StarBLiveXDead, false, depth2), (Root::StarBLiveXDead, true, depth2 - 1), (Root::StarXResetAtA, false, depth2 - 1)];
    }
    if property == "C07" {
        plan = vec![(Root::Crash, false, tier.pick(4, 6)), (Root::CrashQuarantined, false, tier.pick(3, 5)), (Root::PartitionRemovedAtA, false, tier.pick(3, 4))];
    }
    if tier == Tier::Quick && property == "C01" {
        plan = vec![(Root::Crash, false, 4), (Root::CrashQuarantined, false, 4), (Root::CrashRemovedAtAKeepingB, false, 3), (Root::PartitionRemovedAtA, false, 3)];
    }
    let n = plan.len() as u64;
    for (i, (root, pred, d)) in plan.into_iter().enumerate() {
        let deadline = started + Duration::from_secs(budget * (i as u64 + 1) / n);
        parts.push(explore(root, pred, &props, d, deadline));
    }
    if property == "C12" {
        parts.push(lru_walk());
        parts.push(restart_part(tier));
        parts.push(grace_boundaries());
    }
    if property == "C13" {
        // the same oracle when nobody keeps a receiver between evaluations (the value is read on demand)
        let props2 = ["C13", "NOHOLD"];
        let deadline = Instant::now() + Duration::from_secs(tier.pick(8, 600));
        parts.push(explore(Root::Crash, false, &props2, depth - 1, deadline));
        parts.push(explore(Root::StarBLiveXDead, true, &props2, depth2 - 2, Instant::now() + Duration::from_secs(tier.pick(8, 600))));
    }
    parts
}

pub fn replay(v: &Value) -> Result<(), String> {
    if v["root"].as_str() == Some("boundaries") {
        let p = grace_boundaries();
        return match p.violations.first() {
            Some(x) => Err(x.what.clone()),
            None => Ok(()),
        };
    }
    if v["root"].as_str() == Some("restart") {
        let p = restart_part(Tier::Quick);
        return match p.violations.first() {
            Some(x) => Err(x.what.clone()),
            None => Ok(()),
        };
    }
    if v["root"].as_str() == Some("lru") {
        let p = lru_walk();
        return match p.violations.first() {
            Some(x) => Err(x.what.clone()),
            None => Ok(()),
        };
    }
    let root = Root::from_name(v["root"].as_str().unwrap_or(""));
    let seq: Vec<Act> = v["actions"].as_array().map(|a| a.iter().filter_map(Act::from_json).collect()).unwrap_or_default();
    let props = ["C12", "C13", "C01"];
    let mut w = MWorld::new(v["predicate"].as_bool().unwrap_or(false), &props);
    w.warm_up(root, true).map_err(|v| v.1)?;
    for a in root.prefix() {
        w.apply(&a).map_err(|v| v.1)?;
    }
    for a in &seq {
        let r = w.apply(a);
        println!("{} -> A: live {:?} dead {:?} members {:?}", a.json(), w.nodes[0].cc.live_nodes().map(|x| x.node_id.clone()).collect::<Vec<_>>(), w.nodes[0].cc.dead_nodes().map(|x| x.node_id.clone()).collect::<Vec<_>>(), w.nodes[0].cc.node_states().keys().map(|x| x.node_id.clone()).collect::<Vec<_>>());
        if let Err(v) = r {
            return Err(v.1);
        }
    }
    Ok(())
}
