//! `select` — peer selection for a gossip round (C17).

use std::collections::HashSet;
use std::net::SocketAddr;

use rayon::prelude::*;
use serde_json::{json, Value};

use crate::report::{Part, Tier};
use crate::util::{guarded, short_loc, Tally};

/// Scripted generator: returns the scripted values, then the default; logs how many draws were
/// consumed so that the explorer can enumerate the draws actually used (lazy choice points).
pub struct ScriptRng {
    pub script: Vec<u8>,
    pub pos: usize,
}

const LEVELS32: [u32; 3] = [0, 1 << 31, u32::MAX];
const LEVELS64: [u64; 3] = [0, 1 << 63, u64::MAX];

impl ScriptRng {
    fn level(&mut self) -> usize {
        let l = self.script.get(self.pos).copied().unwrap_or(0) as usize;
        self.pos += 1;
        l
    }
}

impl rand::TryRng for ScriptRng {
    type Error = std::convert::Infallible;
    fn try_next_u32(&mut self) -> Result<u32, Self::Error> {
        let l = self.level();
        Ok(LEVELS32[l])
    }
    fn try_next_u64(&mut self) -> Result<u64, Self::Error> {
        let l = self.level();
        Ok(LEVELS64[l])
    }
    fn try_fill_bytes(&mut self, dest: &mut [u8]) -> Result<(), Self::Error> {
        let l = self.level();
        let b = [0u8, 0x80, 0xff][l];
        for d in dest.iter_mut() {
            *d = b;
        }
        Ok(())
    }
}

/// The 7 roles an address can play: (known peer, live, dead, seed)
const ROLES: [(bool, bool, bool, bool); 7] = [
    (false, false, false, true), // seed only (not yet known)
    (true, false, false, false), // known, neither live nor dead (no evaluation yet)
    (true, false, false, true),
    (true, true, false, false), // live
    (true, true, false, true),
    (true, false, true, false), // dead
    (true, false, true, true),
];

fn addr(i: usize) -> SocketAddr {
    SocketAddr::from(([10, 0, 0, (i + 1) as u8], 7000 + i as u16))
}

pub struct Viol {
    pub what: String,
    pub sig: String,
    pub replay: Value,
}

fn multisets(n_roles: usize, max: usize) -> Vec<Vec<usize>> {
    // non-decreasing sequences of role indices of length 0..=max
    let mut out = vec![vec![]];
    let mut layer: Vec<Vec<usize>> = vec![vec![]];
    for _ in 0..max {
        let mut next = vec![];
        for s in &layer {
            let start = s.last().copied().unwrap_or(0);
            for r in start..n_roles {
                let mut s2 = s.clone();
                s2.push(r);
                next.push(s2);
            }
        }
        out.extend(next.iter().cloned());
        layer = next;
    }
    out
}

pub fn check_one(roles: &[usize], script: &[u8]) -> Result<(usize, Option<(String, String)>), String> {
    let mut peers = HashSet::new();
    let mut live = HashSet::new();
    let mut dead = HashSet::new();
    let mut seeds = HashSet::new();
    for (i, r) in roles.iter().enumerate() {
        let (p, l, d, s) = ROLES[*r];
        let a = addr(i);
        if p {
            peers.insert(a);
        }
        if l {
            live.insert(a);
        }
        if d {
            dead.insert(a);
        }
        if s {
            seeds.insert(a);
        }
    }
    let mut rng = ScriptRng { script: script.to_vec(), pos: 0 };
    let (p2, l2, d2, s2) = (peers.clone(), live.clone(), dead.clone(), seeds.clone());
    let (nodes, dead_pick, seed_pick) = guarded(|| chitchat::verif_select_nodes_for_gossip(&mut rng, p2, l2, d2, s2))?;
    let used = rng.pos;
    let v = |w: String, s: &str| Ok((used, Some((w, s.to_string()))));
    if nodes.len() > 3 {
        return v(format!("{} peers selected", nodes.len()), "too-many-peers");
    }
    let distinct: HashSet<_> = nodes.iter().collect();
    if distinct.len() != nodes.len() {
        return v("the same peer selected twice".into(), "duplicate-peer");
    }
    let pool = if live.is_empty() { &peers } else { &live };
    if nodes.iter().any(|n| !pool.contains(n)) {
        return v(format!("selected peer outside the {} pool", if live.is_empty() { "known-peers" } else { "live" }), "peer-outside-pool");
    }
    if nodes.len() != pool.len().min(3) {
        return v(format!("{} peers selected from a pool of {}", nodes.len(), pool.len()), "too-few-peers");
    }
    if let Some(d) = dead_pick {
        if !dead.contains(&d) {
            return v("dead pick is not a dead peer".into(), "dead-pick-outside-dead-set");
        }
    }
    if let Some(s) = seed_pick {
        if !seeds.contains(&s) {
            return v("seed pick is not a seed".into(), "seed-pick-outside-seed-set");
        }
    }
    if live.is_empty() && !seeds.is_empty() && seed_pick.is_none() {
        return v("no live peer is known and a seed exists, but no seed is contacted".into(), "isolated-without-seed");
    }
    if dead.len() > live.len() && dead_pick.is_none() {
        return v("dead peers outnumber live ones, but no dead peer is contacted".into(), "dead-majority-not-contacted");
    }
    Ok((used, None))
}

pub fn run(tier: Tier) -> Vec<Part> {
    let max = tier.pick(6usize, 7usize);
    let mut part = Part::new(&format!("select/roles(up to {max} addresses)"));
    part.rule = format!("every multiset of at most {max} addresses over the 7 roles {{seed only; known; known+seed; live; live+seed; dead; dead+seed}} x every script of generator outputs over {{0, mid, max}} for the draws the function actually consumes (lazy choice points), through the real selection function; oracle: at most 3 distinct peers, all from the live pool (or the known-peers pool when nobody is live), exactly min(3, pool) of them, dead pick in the dead set, seed pick in the seed set, a seed is contacted when nobody is live and a seed exists, a dead peer is contacted when dead outnumber live, no panic; non-trivial = (configuration, script) pairs with at least one address");
    let configs = multisets(ROLES.len(), max);
    part.bounds = json!({"configurations": configs.len(), "rng_levels": 3});
    let results: Vec<(Tally, Vec<Viol>)> = configs
        .par_iter()
        .map(|roles| {
            let mut t = Tally::default();
            let mut v = vec![];
            // enumerate scripts lazily
            let mut stack: Vec<Vec<u8>> = vec![vec![]];
            while let Some(script) = stack.pop() {
                t.inc("executions");
                let replay = || json!({"engine":"select","roles":roles,"rng_script":script});
                match check_one(roles, &script) {
                    Err(p) => {
                        if v.len() < 3 {
                            v.push(Viol { what: format!("selection panicked for roles {roles:?}: {p}"), sig: format!("panic:{}", short_loc(&p)), replay: replay() });
                        }
                    }
                    Ok((used, viol)) => {
                        t.max("max_draws_consumed", used as u64);
                        if let Some((what, sig)) = viol {
                            if v.len() < 3 {
                                v.push(Viol { what: format!("roles {roles:?}, generator script {script:?}: {what}"), sig, replay: replay() });
                            }
                        }
                        // the draws beyond the scripted prefix took level 0: branch on each of them
                        for p in script.len()..used.min(12) {
                            for alt in 1..3u8 {
                                let mut s2 = script.clone();
                                s2.resize(p, 0);
                                s2.push(alt);
                                stack.push(s2);
                            }
                        }
                    }
                }
            }
            if !roles.is_empty() {
                t.add("nontrivial", t.get("executions"));
            }
            (t, v)
        })
        .collect();
    let mut viols = vec![];
    for (t, v) in results {
        part.tally.merge(&t);
        viols.extend(v);
    }
    viols.sort_by_key(|v| v.replay.to_string().len());
    for v in viols {
        part.violation("C17", v.what, v.sig, v.replay);
    }
    part.states = configs.len() as u64;
    part.transitions = part.tally.get("executions");
    part.executions = part.tally.get("executions");
    part.distinct_nontrivial = part.tally.get("nontrivial");
    part.sample(json!({"roles": ["seed only", "dead", "dead+seed", "live"], "rng_script": [2, 0, 1]}));
    vec![part]
}

pub fn replay(v: &Value) -> Result<(), String> {
    let roles: Vec<usize> = v["roles"].as_array().map(|a| a.iter().filter_map(|x| x.as_u64().map(|x| x as usize)).collect()).unwrap_or_default();
    let script: Vec<u8> = v["rng_script"].as_array().map(|a| a.iter().filter_map(|x| x.as_u64().map(|x| x as u8)).collect()).unwrap_or_default();
    match check_one(&roles, &script)? {
        (_, Some((what, _))) => Err(what),
        _ => Ok(()),
    }
}
