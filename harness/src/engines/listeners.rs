//! `listeners` — key-change listeners fire exactly for matching prefixes (C15).

use std::sync::{Arc, Mutex};
use std::time::Instant;

use rayon::prelude::*;
use serde_json::{json, Value};

use crate::codec::{DigestEntry, Id, Msg, Op};
use crate::node::{Node, NodeOpts};
use crate::real;
use crate::report::{Part, Tier};
use crate::util::{guarded, short_loc, Tally};

const SYMBOLS: [&str; 4] = ["a", "b", "é", "😀"];

pub fn strings_up_to(n: usize) -> Vec<String> {
    let mut out = vec![String::new()];
    let mut layer = vec![String::new()];
    for _ in 0..n {
        let mut next = vec![];
        for s in &layer {
            for sym in SYMBOLS {
                next.push(format!("{s}{sym}"));
            }
        }
        out.extend(next.iter().cloned());
        layer = next;
    }
    out
}

/// (subscription index, stripped key, value, owner node id)
type Call = (usize, String, String, String);
type Log = Arc<Mutex<Vec<Call>>>;

fn subscribe(node: &Node, prefix: &str, idx: usize, log: &Log) -> chitchat::ListenerHandle {
    let log = log.clone();
    node.cc.subscribe_event(prefix, move |ev| {
        log.lock().unwrap().push((idx, ev.key.to_string(), ev.value.to_string(), ev.node.node_id.clone()));
    })
}

fn expected(subs: &[(usize, &str)], key: &str, value: &str, owner: &str) -> Vec<Call> {
    let mut v: Vec<Call> = subs.iter().filter(|(_, p)| key.starts_with(p)).map(|(i, p)| (*i, key[p.len()..].to_string(), value.to_string(), owner.to_string())).collect();
    v.sort();
    v
}

pub struct Viol {
    pub what: String,
    pub sig: String,
    pub replay: Value,
}

fn owner_x() -> Id {
    Id::v4("x", 1, 10_002)
}

#[derive(Clone, Copy, Debug, PartialEq, Eq)]
pub enum Life {
    Active,
    Dropped,
    Forever,
    Twice,
}

#[derive(Clone, Copy, Debug, PartialEq, Eq)]
pub enum Write {
    LocalSetNew,
    LocalSetSame,
    LocalSetTtl,
    LocalSetTtlSame,
    LocalDelete,
    LocalDeleteTtl,
    ReplNewer,
    ReplStale,
    ReplTombstone,
    ReplTtl,
    ReplFirst,
    CatchupNewer,
    /// the key was deleted locally (its tombstone holds the empty value) and is set again to ""
    LocalSetEmptyAfterDelete,
    /// the copy holds the key's tombstone; a later delta brings the key back with the value ""
    ReplEmptyAfterTombstone,
    /// the copy (0,2) is reset by a delta (watermark 5, from 0) that carries the key at version 6
    ReplResetBringsKey,
    /// the copy was reset before the subscriptions were taken; a later incremental delta brings the key
    ReplAfterReset,
}

pub const WRITES: [Write; 16] = [
    Write::LocalSetNew,
    Write::LocalSetSame,
    Write::LocalSetTtl,
    Write::LocalSetTtlSame,
    Write::LocalDelete,
    Write::LocalDeleteTtl,
    Write::ReplNewer,
    Write::ReplStale,
    Write::ReplTombstone,
    Write::ReplTtl,
    Write::ReplFirst,
    Write::CatchupNewer,
    Write::LocalSetEmptyAfterDelete,
    Write::ReplEmptyAfterTombstone,
    Write::ReplResetBringsKey,
    Write::ReplAfterReset,
];

/// Runs one scenario; returns (observed calls, expected calls).
pub fn scenario(prefixes: &[(String, Life)], key: &str, write: Write) -> Result<(Vec<Call>, Vec<Call>), String> {
    let mut node = Node::new(&Id::v4("n", 1, 10_001), &NodeOpts::default());
    let log: Log = Arc::new(Mutex::new(vec![]));
    let x = owner_x();
    let kv = |k: &str, v: &str, ver: u64, st: u8| Op::Kv { key: k.into(), value: v.into(), version: ver, status: st };
    // preparation (before subscribing): existing entries
    match write {
        Write::LocalSetSame | Write::LocalDelete | Write::LocalDeleteTtl => node.cc.self_node_state().set(key, "old"),
        Write::LocalSetTtlSame => node.cc.self_node_state().set_with_ttl(key, "old"),
        Write::LocalSetEmptyAfterDelete => {
            node.cc.self_node_state().set(key, "old");
            node.cc.self_node_state().delete(key);
        }
        Write::ReplEmptyAfterTombstone => {
            node.cc.verif_process_message(real::build_real(&Msg::Syn { digest: vec![DigestEntry { id: x.clone(), heartbeat: 1, gc: 0, mv: 0 }], cluster_id: "c".into() }).unwrap());
            node.cc.verif_process_message(real::build_real(&Msg::Ack { ops: vec![Op::Node { id: x.clone(), gc: 0, from: 0 }, kv("other", "o", 1, 0), kv(key, "", 2, 1)] }).unwrap());
        }
        Write::ReplAfterReset => {
            node.cc.verif_process_message(real::build_real(&Msg::Syn { digest: vec![DigestEntry { id: x.clone(), heartbeat: 1, gc: 0, mv: 0 }], cluster_id: "c".into() }).unwrap());
            node.cc.verif_process_message(real::build_real(&Msg::Ack { ops: vec![Op::Node { id: x.clone(), gc: 0, from: 0 }, kv("other", "o", 1, 0), kv(key, "old", 2, 0)] }).unwrap());
            node.cc.verif_process_message(real::build_real(&Msg::Ack { ops: vec![Op::Node { id: x.clone(), gc: 5, from: 0 }, kv("other", "o2", 6, 0)] }).unwrap());
        }
        Write::ReplNewer | Write::ReplStale | Write::ReplTombstone | Write::ReplTtl | Write::CatchupNewer | Write::ReplResetBringsKey => {
            node.cc.verif_process_message(real::build_real(&Msg::Syn { digest: vec![DigestEntry { id: x.clone(), heartbeat: 1, gc: 0, mv: 0 }], cluster_id: "c".into() }).unwrap());
            node.cc.verif_process_message(real::build_real(&Msg::Ack { ops: vec![Op::Node { id: x.clone(), gc: 0, from: 0 }, kv("other", "o", 1, 0), kv(key, "old", 2, 0)] }).unwrap());
        }
        Write::ReplFirst => {
            node.cc.verif_process_message(real::build_real(&Msg::Syn { digest: vec![DigestEntry { id: x.clone(), heartbeat: 1, gc: 0, mv: 0 }], cluster_id: "c".into() }).unwrap());
        }
        _ => {}
    }
    // subscriptions
    let mut handles = vec![];
    let mut active: Vec<(usize, &str)> = vec![];
    let mut idx = 0;
    for (p, life) in prefixes {
        match life {
            Life::Active => {
                handles.push(subscribe(&node, p, idx, &log));
                active.push((idx, p));
                idx += 1;
            }
            Life::Dropped => {
                drop(subscribe(&node, p, idx, &log));
                idx += 1;
            }
            Life::Forever => {
                subscribe(&node, p, idx, &log).forever();
                active.push((idx, p));
                idx += 1;
            }
            Life::Twice => {
                handles.push(subscribe(&node, p, idx, &log));
                active.push((idx, p));
                idx += 1;
                handles.push(subscribe(&node, p, idx, &log));
                active.push((idx, p));
                idx += 1;
            }
        }
    }
    // the write
    let me = "n";
    let want: Vec<Call> = match write {
        Write::LocalSetNew => {
            guarded(|| node.cc.self_node_state().set(key, "new"))?;
            expected(&active, key, "new", me)
        }
        Write::LocalSetSame => {
            guarded(|| node.cc.self_node_state().set(key, "old"))?;
            vec![]
        }
        Write::LocalSetTtl => {
            guarded(|| node.cc.self_node_state().set_with_ttl(key, "new"))?;
            expected(&active, key, "new", me)
        }
        Write::LocalSetTtlSame => {
            guarded(|| node.cc.self_node_state().set_with_ttl(key, "old"))?;
            vec![]
        }
        Write::LocalDelete => {
            guarded(|| node.cc.self_node_state().delete(key))?;
            vec![]
        }
        Write::LocalDeleteTtl => {
            guarded(|| node.cc.self_node_state().delete_after_ttl(key))?;
            vec![]
        }
        Write::ReplNewer => {
            let m = real::build_real(&Msg::Ack { ops: vec![Op::Node { id: x.clone(), gc: 0, from: 2 }, kv(key, "new", 3, 0)] }).unwrap();
            guarded(|| node.cc.verif_process_message(m))?;
            expected(&active, key, "new", "x")
        }
        Write::ReplStale => {
            // the delta re-sends the old version of the key together with a genuinely new entry
            let m = real::build_real(&Msg::Ack { ops: vec![Op::Node { id: x.clone(), gc: 0, from: 0 }, kv(key, "stale", 1, 0), kv("zz-fresh", "f", 3, 0)] }).unwrap();
            guarded(|| node.cc.verif_process_message(m))?;
            expected(&active, "zz-fresh", "f", "x")
        }
        Write::ReplTombstone => {
            let m = real::build_real(&Msg::Ack { ops: vec![Op::Node { id: x.clone(), gc: 0, from: 2 }, kv(key, "", 3, 1)] }).unwrap();
            guarded(|| node.cc.verif_process_message(m))?;
            vec![]
        }
        Write::ReplTtl => {
            let m = real::build_real(&Msg::Ack { ops: vec![Op::Node { id: x.clone(), gc: 0, from: 2 }, kv(key, "ttl", 3, 2)] }).unwrap();
            guarded(|| node.cc.verif_process_message(m))?;
            expected(&active, key, "ttl", "x")
        }
        Write::ReplFirst => {
            let m = real::build_real(&Msg::SynAck { digest: vec![], ops: vec![Op::Node { id: x.clone(), gc: 0, from: 0 }, kv(key, "first", 1, 0)] }).unwrap();
            guarded(|| node.cc.verif_process_message(m))?;
            expected(&active, key, "first", "x")
        }
        Write::LocalSetEmptyAfterDelete => {
            guarded(|| node.cc.self_node_state().set(key, ""))?;
            expected(&active, key, "", me)
        }
        Write::ReplEmptyAfterTombstone => {
            let m = real::build_real(&Msg::Ack { ops: vec![Op::Node { id: x.clone(), gc: 0, from: 2 }, kv(key, "", 3, 0)] }).unwrap();
            guarded(|| node.cc.verif_process_message(m))?;
            expected(&active, key, "", "x")
        }
        Write::ReplResetBringsKey => {
            let m = real::build_real(&Msg::Ack { ops: vec![Op::Node { id: x.clone(), gc: 5, from: 0 }, kv(key, "reset-new", 6, 0)] }).unwrap();
            guarded(|| node.cc.verif_process_message(m))?;
            let ns = node.cc.node_state(&real::to_real_id(&x)).ok_or("member lost")?;
            if ns.last_gc_version() != 5 {
                return Err("harness: the delta did not reset the copy".into());
            }
            expected(&active, key, "reset-new", "x")
        }
        Write::ReplAfterReset => {
            let m = real::build_real(&Msg::Ack { ops: vec![Op::Node { id: x.clone(), gc: 5, from: 6 }, kv(key, "after-reset", 7, 0)] }).unwrap();
            guarded(|| node.cc.verif_process_message(m))?;
            expected(&active, key, "after-reset", "x")
        }
        Write::CatchupNewer => {
            // the catch-up entry point: `key` gets a newer value, `other` is supplied unchanged
            let kvs = vec![
                ("other".to_string(), chitchat::VersionedValue { value: "o".into(), version: 1, status: chitchat::DeletionStatus::Set }),
                (key.to_string(), chitchat::VersionedValue { value: "caught-up".into(), version: 4, status: chitchat::DeletionStatus::Set }),
            ];
            let id = real::to_real_id(&x);
            guarded(|| node.cc.reset_node_state_if_update(&id, kvs.into_iter(), 4, 0))?;
            if key == "other" {
                // same key supplied twice: the second (newer) one wins
                expected(&active, key, "caught-up", "x")
            } else {
                expected(&active, key, "caught-up", "x")
            }
        }
    };
    drop(handles);
    let mut got = log.lock().unwrap().clone();
    got.sort();
    Ok((got, want))
}

fn compare(prefixes: &[(String, Life)], key: &str, write: Write, t: &mut Tally, v: &mut Vec<Viol>) {
    t.inc("cases");
    let replay = || json!({"engine":"listeners","prefixes": prefixes.iter().map(|(p,l)| json!([p, format!("{l:?}")])).collect::<Vec<_>>(), "key": key, "write": format!("{write:?}")});
    match scenario(prefixes, key, write) {
        Err(p) => {
            if v.len() < 5 {
                v.push(Viol { what: format!("panic with key {key:?}, prefixes {:?}, {write:?}: {p}", prefixes.iter().map(|x| &x.0).collect::<Vec<_>>()), sig: format!("panic:{}", short_loc(&p)), replay: replay() });
            }
        }
        Ok((got, want)) => {
            if !want.is_empty() {
                t.inc("cases_with_expected_calls");
            }
            t.add("expected_calls", want.len() as u64);
            if got != want && v.len() < 5 {
                let sig = if got.len() < want.len() {
                    "listener-not-called"
                } else if got.len() > want.len() {
                    "listener-called-unexpectedly"
                } else {
                    "listener-wrong-payload"
                };
                v.push(Viol { what: format!("key {key:?}, prefixes {:?}, {write:?}: calls {got:?}, expected {want:?}", prefixes.iter().map(|x| (&x.0, x.1)).collect::<Vec<_>>()), sig: sig.into(), replay: replay() });
            }
        }
    }
}

fn finish(part: &mut Part, results: Vec<(Tally, Vec<Viol>)>) {
    let mut viols = vec![];
    for (t, v) in results {
        part.tally.merge(&t);
        viols.extend(v);
    }
    viols.sort_by_key(|v| v.replay.to_string().len());
    for v in viols {
        part.violation("C15", v.what, v.sig, v.replay);
    }
    part.states = part.tally.get("cases");
    part.transitions = part.tally.get("cases");
    part.executions = part.tally.get("cases");
    part.distinct_nontrivial = part.tally.get("cases_with_expected_calls");
}

/// Part D: a handle dropped by another thread while a notification is in progress (the registry's
/// read lock is held by the notifying thread). One schedule per (which handle, kind of the write
/// in progress, kind of the later write): the drop starts while the slow callback runs and can
/// only complete after it returned; afterwards the dropped subscription must not be called.
pub fn drop_during_notification() -> Part {
    use std::sync::mpsc;
    use std::time::Duration;
    let mut part = Part::new("listeners/D-handle-dropped-while-notifying");
    part.rule = "two subscriptions on prefix \"k\" and a slow subscription on prefix \"slow\" on a real node; thread 1 performs a write matching \"slow\" (local set / replicated delta) whose callback signals thread 2 and keeps running for 40 ms; thread 2 drops one of the \"k\" handles (first / second subscribed) during that window; after both finished, a later write on \"k...\" (local set / set_with_ttl / replicated) must call the kept subscription exactly once and the dropped one not at all; all 2 x 2 x 3 combinations, plus the drop before and after the slow write; the two threads are real OS threads synchronised by channels (one fixed interleaving per case: drop begins inside the notification window)".into();
    let mut cases = 0u64;
    for dropped in 0..2usize {
        for slow_write in 0..2u8 {
            for later in 0..3u8 {
                for timing in 0..3u8 {
                    cases += 1;
                    let replay = json!({"engine":"listeners","kind":"drop-during-notification","dropped":dropped,"slow_write":slow_write,"later_write":later,"timing":timing});
                    let mut node = Node::new(&Id::v4("n", 1, 10_001), &NodeOpts::default());
                    let x = owner_x();
                    node.cc.verif_process_message(real::build_real(&Msg::Syn { digest: vec![DigestEntry { id: x.clone(), heartbeat: 1, gc: 0, mv: 0 }], cluster_id: "c".into() }).unwrap());
                    let log: Log = Arc::new(Mutex::new(vec![]));
                    let h0 = subscribe(&node, "k", 0, &log);
                    let h1 = subscribe(&node, "k", 1, &log);
                    let (entered_tx, entered_rx) = mpsc::channel::<()>();
                    let (dropping_tx, dropping_rx) = mpsc::channel::<()>();
                    let entered_tx = Mutex::new(entered_tx);
                    let dropping_rx = Mutex::new(dropping_rx);
                    let _slow = node.cc.subscribe_event("slow", move |_ev| {
                        let _ = entered_tx.lock().unwrap().send(());
                        // wait until the other thread is about to drop, then keep the notification going
                        let _ = dropping_rx.lock().unwrap().recv_timeout(Duration::from_secs(2));
                        std::thread::sleep(Duration::from_millis(40));
                    });
                    let (mut keep, victim) = if dropped == 0 { (Some(h1), h0) } else { (Some(h0), h1) };
                    let kept_idx = if dropped == 0 { 1usize } else { 0usize };
                    let mut victim = Some(victim);
                    if timing == 0 {
                        drop(victim.take());
                    }
                    let kv = |k: &str, v: &str, ver: u64, st: u8| Op::Kv { key: k.into(), value: v.into(), version: ver, status: st };
                    let slow_msg = real::build_real(&Msg::Ack { ops: vec![Op::Node { id: x.clone(), gc: 0, from: 0 }, kv("slow:x", "s", 1, 0)] }).unwrap();
                    let res = guarded(|| {
                        std::thread::scope(|sc| {
                            let v = if timing == 1 { victim.take() } else { None };
                            let t2 = sc.spawn(move || {
                                if let Some(h) = v {
                                    if entered_rx.recv_timeout(Duration::from_secs(2)).is_ok() {
                                        let _ = dropping_tx.send(());
                                        drop(h);
                                    }
                                } else {
                                    let _ = dropping_tx.send(());
                                }
                            });
                            if slow_write == 0 {
                                node.cc.self_node_state().set("slow:x", "s");
                            } else {
                                node.cc.verif_process_message(slow_msg);
                            }
                            let _ = t2.join();
                        });
                    });
                    if let Err(p) = res {
                        part.violation("C15", format!("panic while a handle was dropped during a notification: {p}"), "panic".into(), replay);
                        continue;
                    }
                    if timing == 2 {
                        drop(victim.take());
                    }
                    log.lock().unwrap().clear();
                    let (key, value, owner): (&str, &str, &str) = match later {
                        0 => {
                            node.cc.self_node_state().set("k1", "later");
                            ("1", "later", "n")
                        }
                        1 => {
                            node.cc.self_node_state().set_with_ttl("k2", "later-ttl");
                            ("2", "later-ttl", "n")
                        }
                        _ => {
                            let m = real::build_real(&Msg::Ack { ops: vec![Op::Node { id: x.clone(), gc: 0, from: if slow_write == 1 { 1 } else { 0 } }, kv("k3", "later-repl", 2, 0)] }).unwrap();
                            node.cc.verif_process_message(m);
                            ("3", "later-repl", "x")
                        }
                    };
                    let got = log.lock().unwrap().clone();
                    let want: Vec<Call> = vec![(kept_idx, key.to_string(), value.to_string(), owner.to_string())];
                    if got != want {
                        part.violation(
                            "C15",
                            format!("handle of subscription {dropped} dropped {} a notification in progress on another thread; a later write then produced calls {got:?}, expected {want:?}", ["before", "during", "after"][timing as usize]),
                            "dropped-subscription-still-called".into(),
                            replay,
                        );
                    }
                    if timing == 1 {
                        part.tally.inc("drops_during_a_notification");
                    }
                    drop(keep.take());
                }
            }
        }
    }
    part.states = cases;
    part.transitions = cases;
    part.executions = cases;
    part.distinct_nontrivial = part.tally.get("drops_during_a_notification");
    part.sample(json!({"dropped": 1, "slow_write": "replicated", "later_write": "set_with_ttl", "timing": "during"}));
    part.require("drops_during_a_notification");
    part
}

pub fn run(tier: Tier, started: Instant) -> Vec<Part> {
    let all = strings_up_to(3);
    let deadline = started + std::time::Duration::from_secs(tier.pick(55, 3000));
    let mut parts = vec![];

    // A: every prefix set of size <= 2 x every key, local set
    let mut a = Part::new("listeners/A-prefix-sets-of-size<=2");
    a.rule = "alphabet {a, b, é (2 bytes), 😀 (4 bytes)}, all 85 strings of length <= 3: every set of at most two prefixes x every key, local set of a new value on a real node; the multiset of (subscription, stripped key, value, owner) callbacks must equal the reference (one call per active subscription whose prefix is a prefix of the key); non-trivial = cases in which at least one call is expected".into();
    let mut sets: Vec<Vec<String>> = vec![vec![]];
    for (i, p) in all.iter().enumerate() {
        sets.push(vec![p.clone()]);
        for q in all.iter().skip(i + 1) {
            sets.push(vec![p.clone(), q.clone()]);
        }
    }
    a.bounds = json!({"strings": all.len(), "prefix_sets": sets.len(), "keys": all.len()});
    let results: Vec<(Tally, Vec<Viol>)> = sets
        .par_iter()
        .map(|set| {
            let mut t = Tally::default();
            let mut v = vec![];
            let ps: Vec<(String, Life)> = set.iter().map(|p| (p.clone(), Life::Active)).collect();
            for key in &all {
                compare(&ps, key, Write::LocalSetNew, &mut t, &mut v);
            }
            (t, v)
        })
        .collect();
    finish(&mut a, results);
    a.sample(json!({"prefixes": ["é", "é😀"], "key": "é😀a", "write": "LocalSetNew"}));
    parts.push(a);

    // B: one prefix x key x life cycle x write kind
    let mut b = Part::new("listeners/B-lifecycles-and-write-kinds");
    b.rule = "every prefix (or none) x every key x subscription life-cycle {active, handle dropped, forever, subscribed twice} x write kind {local set new / same value, set_with_ttl new / same, delete, delete_after_ttl, replicated newer set, replicated stale entry alongside a fresh one, replicated tombstone, replicated TTL entry, first replicated entry of a member via SYN-ACK, catch-up entry point, local set of \"\" after a delete, replicated \"\" after a tombstone, key brought by a delta that resets the copy, key brought by an incremental delta after the copy was reset}; same oracle; deletions, no-ops, stale updates and dropped handles must produce no call".into();
    let mut psets: Vec<Option<String>> = vec![None];
    psets.extend(all.iter().cloned().map(Some));
    b.bounds = json!({"prefixes": psets.len(), "keys": all.len(), "lifecycles": 4, "write_kinds": WRITES.len()});
    let results: Vec<(Tally, Vec<Viol>)> = psets
        .par_iter()
        .map(|p| {
            let mut t = Tally::default();
            let mut v = vec![];
            for key in &all {
                for life in [Life::Active, Life::Dropped, Life::Forever, Life::Twice] {
                    if p.is_none() && life != Life::Active {
                        continue;
                    }
                    for w in WRITES {
                        let ps: Vec<(String, Life)> = p.iter().map(|p| (p.clone(), life)).collect();
                        compare(&ps, key, w, &mut t, &mut v);
                    }
                }
            }
            (t, v)
        })
        .collect();
    finish(&mut b, results);
    b.sample(json!({"prefixes": [["😀", "Twice"]], "key": "😀b", "write": "ReplTtl"}));
    parts.push(b);

    // C: up to 8 prefixes drawn from the prefixes of the key and their one-symbol siblings
    let klen = tier.pick(3usize, 3usize);
    let mut c = Part::new(&format!("listeners/C-eight-prefixes(keys of length {klen})"));
    c.rule = format!("for every key of length {klen}: candidate prefixes = all prefixes of the key, the key extended by one symbol, and every proper prefix extended by a non-matching symbol; every subset of exactly 8 candidates (all candidates if fewer) subscribed at once; local set and replicated newer set; same oracle");
    let keys: Vec<String> = all.iter().filter(|k| k.chars().count() == klen).cloned().collect();
    let capped = std::sync::atomic::AtomicBool::new(false);
    let results: Vec<(Tally, Vec<Viol>)> = keys
        .par_iter()
        .map(|key| {
            let mut t = Tally::default();
            let mut v = vec![];
            let chars: Vec<char> = key.chars().collect();
            let mut cands: Vec<String> = vec![];
            for i in 0..=chars.len() {
                let p: String = chars[..i].iter().collect();
                cands.push(p.clone());
                for s in SYMBOLS {
                    let ext = format!("{p}{s}");
                    if !key.starts_with(&ext) || i == chars.len() {
                        cands.push(ext);
                    }
                }
            }
            cands.sort();
            cands.dedup();
            let n = cands.len();
            let k = 8.min(n);
            // all k-subsets
            let mut idx: Vec<usize> = (0..k).collect();
            loop {
                if Instant::now() > deadline {
                    capped.store(true, std::sync::atomic::Ordering::Relaxed);
                    break;
                }
                let ps: Vec<(String, Life)> = idx.iter().map(|i| (cands[*i].clone(), Life::Active)).collect();
                compare(&ps, key, Write::LocalSetNew, &mut t, &mut v);
                compare(&ps, key, Write::ReplNewer, &mut t, &mut v);
                // next combination
                let mut i = k;
                while i > 0 && idx[i - 1] == n - k + i - 1 {
                    i -= 1;
                }
                if i == 0 {
                    break;
                }
                idx[i - 1] += 1;
                for j in i..k {
                    idx[j] = idx[j - 1] + 1;
                }
            }
            t.max("max_candidate_prefixes", n as u64);
            (t, v)
        })
        .collect();
    finish(&mut c, results);
    if capped.load(std::sync::atomic::Ordering::Relaxed) {
        c.exhaustive = false;
        c.caps_hit.push("wall cap".into());
    }
    c.sample(json!({"key": "aé", "prefixes": ["", "a", "aa", "ab", "aé", "aéa", "aéb", "b"], "write": "ReplNewer"}));
    parts.push(c);
    parts.push(drop_during_notification());
    parts
}

pub fn replay(v: &Value) -> Result<(), String> {
    if v["kind"].as_str() == Some("drop-during-notification") {
        let p = drop_during_notification();
        return match p.violations.first() {
            Some(x) => Err(x.what.clone()),
            None => Ok(()),
        };
    }
    let life = |s: &str| match s {
        "Dropped" => Life::Dropped,
        "Forever" => Life::Forever,
        "Twice" => Life::Twice,
        _ => Life::Active,
    };
    let prefixes: Vec<(String, Life)> = v["prefixes"].as_array().map(|a| a.iter().filter_map(|e| Some((e[0].as_str()?.to_string(), life(e[1].as_str()?)))).collect()).unwrap_or_default();
    let key = v["key"].as_str().ok_or("no key")?;
    let w = WRITES.iter().find(|w| Some(format!("{w:?}").as_str()) == v["write"].as_str()).copied().ok_or("bad write")?;
    match scenario(&prefixes, key, w) {
        Err(p) => Err(format!("panic: {p}")),
        Ok((got, want)) => {
            println!("calls: {got:?}\nexpected: {want:?}");
            if got == want {
                Ok(())
            } else {
                Err("callbacks differ from the reference".into())
            }
        }
    }
}
