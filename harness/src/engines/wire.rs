//! `wire` — bounded grammar enumeration of messages, both directions (C08).

use std::net::{IpAddr, Ipv6Addr, SocketAddr};
use std::time::Instant;

use chitchat::Serializable;
use rayon::prelude::*;
use serde_json::{json, Value};

use crate::codec::{self, BlockMode, DigestEntry, Id, Msg, Op, StreamPlan};
use crate::node::{Node, NodeOpts};
use crate::real;
use crate::report::{Part, Tier};
use crate::util::{guarded, short_loc, text, Content, Tally};

pub const LEN_CLASSES: [usize; 9] = [0, 1, 255, 256, 16_383, 16_384, 16_385, 40_000, 65_000];

fn ids() -> Vec<Id> {
    let v6 = SocketAddr::new(IpAddr::V6(Ipv6Addr::new(0x2001, 0xdb8, 0, 0, 0, 0xff00, 0x42, 0x8329)), 65_535);
    vec![
        Id::v4("n", 0, 1),
        Id { node_id: "é😀".into(), generation: u64::MAX, addr: v6 },
        Id { node_id: String::new(), generation: 1, addr: SocketAddr::new(IpAddr::V6(Ipv6Addr::UNSPECIFIED), 0) },
        Id::v4(&text(255, Content::Ascii7, 5), 2, 65_535),
        Id::v4(&text(256, Content::Mixed, 6), 3, 7),
        Id::v4(&text(1_600, Content::Mixed, 7), u64::MAX, 8),
        // address classes a normalising encoder could fold into one another
        Id { node_id: "mapped".into(), generation: 4, addr: "[::ffff:10.0.0.7]:7280".parse().unwrap() },
        Id { node_id: "compat".into(), generation: 5, addr: "[::10.0.0.7]:7280".parse().unwrap() },
        Id { node_id: "v6loop".into(), generation: 6, addr: "[::1]:1".parse().unwrap() },
        Id { node_id: "bcast".into(), generation: 7, addr: "255.255.255.255:65535".parse().unwrap() },
    ]
}

/// Pairs of distinct members that share an address: a node restarted on the same address with a new
/// generation (peers hold both incarnations until the old one is garbage collected), and two node
/// ids behind one address.
fn twins() -> Vec<(Id, Id)> {
    vec![(Id::v4("twin", 1, 9_000), Id::v4("twin", 2, 9_000)), (Id::v4("twin-a", 1, 9_001), Id::v4("twin-b", 1, 9_001))]
}

fn describe(msg: &Msg) -> Value {
    let sl = |s: &str| if s.len() > 12 { format!("<{} bytes>", s.len()) } else { s.to_string() };
    let idd = |id: &Id| format!("{}#{}@{}", sl(&id.node_id), id.generation, id.addr);
    let ops = |ops: &[Op]| -> Vec<String> {
        ops.iter()
            .map(|o| match o {
                Op::Node { id, gc, from } => format!("Node({}, gc={gc}, from={from})", idd(id)),
                Op::Kv { key, value, version, status } => format!("Kv({}, {}, v{version}, status {status})", sl(key), sl(value)),
                Op::SetMax(m) => format!("SetMax({m})"),
            })
            .collect()
    };
    match msg {
        Msg::Syn { digest, cluster_id } => json!({"kind":"syn","cluster_id":sl(cluster_id),"digest_members":digest.len()}),
        Msg::SynAck { digest, ops: o } => json!({"kind":"synack","digest_members":digest.len(),"ops":ops(o)}),
        Msg::Ack { ops: o } => json!({"kind":"ack","ops":ops(o)}),
        Msg::BadCluster => json!({"kind":"badcluster"}),
    }
}

struct Viol {
    what: String,
    sig: String,
    replay: Value,
}

fn is_honest_shaped(ops: &[Op]) -> bool {
    // per member: header, entries ascending, SetMax only if there is no entry and it is > 0
    let Ok(groups) = codec::group_ops(ops, true) else { return false };
    codec::honest_ops(&groups) == ops
}

/// Direction A: independent encoder -> real decoder.
fn check_decode(msg: &Msg, plan: StreamPlan, plan_name: &str, tally: &mut Tally, viols: &mut Vec<Viol>) {
    tally.inc("decode_cases");
    let bytes = codec::encode_with(msg, plan);
    let replay = || json!({"engine":"wire","direction":"independent-encoder->real-decoder","plan":plan_name,"message":describe(msg),"hex_prefix": hex(&bytes[..bytes.len().min(64)]), "len": bytes.len()});
    let want = match real::meaning_of_ast(msg, false) {
        Ok(m) => m,
        Err(_) => return,
    };
    let dec = guarded(|| real::real_decode(&bytes));
    let (rmsg, consumed) = match dec {
        Err(p) => {
            viols.push(Viol { what: format!("real decoder panicked: {p}"), sig: format!("panic:{}", short_loc(&p)), replay: replay() });
            return;
        }
        Ok(Err(e)) => {
            viols.push(Viol { what: format!("real decoder rejects a well-formed {}: {e}", msg.kind()), sig: "valid-message-rejected".into(), replay: replay() });
            return;
        }
        Ok(Ok(x)) => x,
    };
    if consumed != bytes.len() {
        viols.push(Viol { what: format!("real decoder consumed {consumed} of {} bytes", bytes.len()), sig: "trailing-bytes".into(), replay: replay() });
    }
    let got = real::meaning_of_real(&rmsg);
    if got != want {
        viols.push(Viol { what: format!("real decoder reads a different {} than what was encoded", msg.kind()), sig: "decode-disagreement".into(), replay: replay() });
        return;
    }
    // announced length of a decoded delta = the bytes its stream occupied
    let own = codec::decode(&bytes).expect("independent decoder must read the independent encoder");
    if let Some(l) = real::delta_serialized_len(&rmsg) {
        if l != own.stream_len {
            viols.push(Viol { what: format!("decoded delta announces {l} bytes, its stream occupies {}", own.stream_len), sig: "announced-length".into(), replay: replay() });
        }
    }
    if own.blocks.compressed > 0 {
        tally.inc("with_compressed_block");
    }
    if own.blocks.raw > 0 {
        tally.inc("with_raw_block");
    }
    if own.blocks.compressed + own.blocks.raw > 1 {
        tally.inc("with_several_blocks");
    }
    // Messages without a delta can be re-encoded by the real encoder and must give back the very
    // same bytes. A *decoded* delta cannot: it remembers the length of the foreign stream it was
    // read from and the real encoder is free to cut and compress blocks differently (zstd's output
    // depends on the destination capacity), so nodes never re-serialize a received delta. The
    // encode direction for deltas is covered by the real-emissions part.
    let reencodable = matches!(msg, Msg::Syn { .. } | Msg::BadCluster);
    let _ = is_honest_shaped;
    if reencodable {
        tally.inc("reencode_cases");
        match guarded(|| (real::real_encode(&rmsg), rmsg.serialized_len())) {
            Err(p) => viols.push(Viol { what: format!("real encoder panicked: {p}"), sig: format!("panic:{}", short_loc(&p)), replay: replay() }),
            Ok((b2, announced)) => {
                if announced != b2.len() {
                    viols.push(Viol { what: format!("serialized_len() announces {announced}, {} bytes written", b2.len()), sig: "announced-length".into(), replay: replay() });
                }
                // digests with duplicate ids collapse; only compare bytes when the digest had none
                let dup = match msg {
                    Msg::Syn { digest, .. } | Msg::SynAck { digest, .. } => codec::digest_as_map(digest).len() != digest.len() || !digest.windows(2).all(|w| w[0].id < w[1].id),
                    _ => false,
                };
                if !dup && b2 != bytes {
                    viols.push(Viol { what: format!("real encoder writes different bytes ({} vs {}) for the same {}", b2.len(), bytes.len(), msg.kind()), sig: "encode-disagreement".into(), replay: replay() });
                }
                match codec::decode(&b2) {
                    Ok(d) => {
                        if real::meaning_of_ast(&d.msg, false).ok().as_ref() != Some(&want) || d.consumed != b2.len() {
                            viols.push(Viol { what: "independent decoder reads the real encoder's output differently".into(), sig: "decode-disagreement".into(), replay: replay() });
                        }
                    }
                    Err(e) => viols.push(Viol { what: format!("independent decoder rejects the real encoder's output: {}", e.0), sig: "decode-disagreement".into(), replay: replay() }),
                }
                match real::real_decode(&b2) {
                    Ok((m3, used)) => {
                        if m3 != rmsg || used != b2.len() {
                            viols.push(Viol { what: "real decode(real encode(m)) != m".into(), sig: "roundtrip".into(), replay: replay() });
                        }
                    }
                    Err(e) => viols.push(Viol { what: format!("real decoder rejects the real encoder's output: {e}"), sig: "roundtrip".into(), replay: replay() }),
                }
            }
        }
    }
}

fn hex(b: &[u8]) -> String {
    b.iter().map(|x| format!("{x:02x}")).collect()
}

fn plans() -> Vec<(&'static str, StreamPlan)> {
    vec![
        ("auto", StreamPlan::default()),
        ("raw", StreamPlan { block_size: 16_384, mode: BlockMode::Raw, trailing_empty_block: false }),
        ("compressed", StreamPlan { block_size: 16_384, mode: BlockMode::Compressed, trailing_empty_block: false }),
        ("tiny-blocks", StreamPlan { block_size: 7, mode: BlockMode::Raw, trailing_empty_block: false }),
        ("big-blocks", StreamPlan { block_size: 65_535, mode: BlockMode::Auto, trailing_empty_block: true }),
    ]
}

/// All honest op sequences of length <= max_ops over the op alphabet, small strings.
fn op_sequences(max_ops: usize, ids: &[Id]) -> Vec<Vec<Op>> {
    // building blocks per member: header + one of {nothing, SetMax, kv*}
    let mut out: Vec<Vec<Op>> = vec![vec![]];
    let kv = |ver: u64, st: u8| Op::Kv { key: format!("k{ver}"), value: if st == 1 { String::new() } else { format!("v{ver}") }, version: ver, status: st };
    // one member
    let mut member_bodies: Vec<Vec<Op>> = vec![vec![], vec![Op::SetMax(3)], vec![Op::SetMax(u64::MAX)]];
    for st in 0..3u8 {
        member_bodies.push(vec![kv(1, st)]);
        for st2 in 0..3u8 {
            member_bodies.push(vec![kv(2, st), kv(5, st2)]);
            for st3 in 0..3u8 {
                member_bodies.push(vec![kv(1, st), kv(2, st2), kv(u64::MAX, st3)]);
            }
        }
    }
    let headers = |id: &Id| vec![Op::Node { id: id.clone(), gc: 0, from: 0 }, Op::Node { id: id.clone(), gc: u64::MAX, from: 0 }, Op::Node { id: id.clone(), gc: 3, from: 7 }];
    for (i, id) in ids.iter().enumerate() {
        for h in headers(id) {
            for body in &member_bodies {
                if 1 + body.len() > max_ops {
                    continue;
                }
                let mut ops = vec![h.clone()];
                ops.extend(body.iter().cloned());
                out.push(ops.clone());
                // second member after it
                for id2 in ids.iter().skip(i + 1).take(2) {
                    for body2 in member_bodies.iter().take(6) {
                        if ops.len() + 1 + body2.len() > max_ops {
                            continue;
                        }
                        let mut ops2 = ops.clone();
                        ops2.push(Op::Node { id: id2.clone(), gc: 1, from: 0 });
                        ops2.extend(body2.iter().cloned());
                        out.push(ops2);
                    }
                }
            }
        }
    }
    out
}

fn digests(ids: &[Id]) -> Vec<Vec<DigestEntry>> {
    let e = |id: &Id, k: u64| DigestEntry { id: id.clone(), heartbeat: k, gc: k.wrapping_mul(3), mv: u64::MAX - k };
    let mut out = vec![vec![]];
    for (i, a) in ids.iter().enumerate() {
        out.push(vec![e(a, 1)]);
        for (j, b) in ids.iter().enumerate().skip(i + 1) {
            out.push(vec![e(a, 0), e(b, u64::MAX)]);
            for c in ids.iter().skip(j + 1) {
                out.push(vec![e(a, 5), e(b, 6), e(c, 7)]);
            }
        }
    }
    out
}

fn many_member_digest(n: usize) -> Vec<DigestEntry> {
    (0..n).map(|i| DigestEntry { id: Id::v4(&format!("m{i:05}"), i as u64, (i % 60_000) as u16), heartbeat: i as u64, gc: 1, mv: 2 + i as u64 }).collect()
}

/// Part 1: structural enumeration with small strings.
pub fn structural(want: &[&str], max_ops: usize) -> Part {
    let mut part = Part::new(&format!("wire/structural(ops<={max_ops})"));
    part.rule = format!("4 message kinds x digests of 0..3 members drawn from 10 ids (IPv4/IPv6, id lengths 0/1-2 chars/255/256/1600, generations 0..2^64-1; plus messages naming two members that share an address: two generations of one node id, two node ids) x every honest op sequence of length <= {max_ops} (member headers with 3 watermark/start shapes, 0-3 key-values of every status, SetMaxVersion tails, empty members, two members) x 5 block layouts of the independent encoder (honest, all raw, all compressed, 7-byte blocks, one 65535-byte block + trailing empty block); independent encoder -> real decoder -> message view must equal the AST and consume all bytes; messages without a delta are re-encoded by the real encoder, which must reproduce the same bytes and announce their exact count (the encode direction for deltas is the real-emissions part); non-trivial = messages carrying a delta or a non-empty digest");
    let ids = ids();
    let seqs = op_sequences(max_ops, &ids);
    let dgs = digests(&ids);
    part.bounds = json!({"ids": ids.len(), "op_sequences": seqs.len(), "digests": dgs.len(), "block_layouts": 5});
    let mut msgs: Vec<Msg> = vec![Msg::BadCluster];
    for (i, d) in dgs.iter().enumerate() {
        for cid in ["", "c", "é-cluster"] {
            msgs.push(Msg::Syn { digest: d.clone(), cluster_id: cid.to_string() });
        }
        // SYN-ACK: every digest with a rotating subset of op sequences (every sequence appears with
        // at least three digests), plus every sequence with the empty digest
        for (j, s) in seqs.iter().enumerate() {
            if i == 0 || (i + j) % 7 == 0 {
                msgs.push(Msg::SynAck { digest: d.clone(), ops: s.clone() });
            }
        }
    }
    for s in &seqs {
        msgs.push(Msg::Ack { ops: s.clone() });
    }
    for (a, b) in twins() {
        let kv = |k: &str, ver: u64, st: u8| Op::Kv { key: k.into(), value: if st == 1 { String::new() } else { "v".into() }, version: ver, status: st };
        let hdr = |id: &Id| Op::Node { id: id.clone(), gc: 0, from: 0 };
        let de = |id: &Id, hb: u64| DigestEntry { id: id.clone(), heartbeat: hb, gc: 0, mv: 1 };
        for (x, y) in [(&a, &b), (&b, &a)] {
            msgs.push(Msg::Ack { ops: vec![hdr(x), kv("k", 1, 0), hdr(y), kv("k", 1, 0)] });
            msgs.push(Msg::Ack { ops: vec![hdr(x), hdr(y)] });
            msgs.push(Msg::Ack { ops: vec![hdr(x), Op::SetMax(3), hdr(y), kv("k", 2, 1)] });
            msgs.push(Msg::SynAck { digest: vec![de(x, 1), de(y, 2)], ops: vec![hdr(x), kv("a", 1, 2), hdr(y), kv("b", 1, 0), kv("c", 2, 0)] });
            msgs.push(Msg::Syn { digest: vec![de(x, 1), de(y, 2)], cluster_id: "c".into() });
        }
    }
    msgs.push(Msg::Syn { digest: many_member_digest(500), cluster_id: "c".into() });
    msgs.push(Msg::Syn { digest: many_member_digest(1000), cluster_id: "c".into() });
    msgs.push(Msg::Syn { digest: many_member_digest(2000), cluster_id: text(65_535, Content::Mixed, 3) });
    msgs.push(Msg::SynAck { digest: many_member_digest(2000), ops: seqs[seqs.len() / 2].clone() });
    msgs.push(Msg::Syn { digest: vec![DigestEntry { id: Id::v4(&text(65_535, Content::Ascii7, 9), 1, 1), heartbeat: 1, gc: 2, mv: 3 }], cluster_id: "c".into() });
    part.tally.add("messages", msgs.len() as u64);
    let results: Vec<(Tally, Vec<Viol>)> = msgs
        .par_iter()
        .map(|m| {
            let mut t = Tally::default();
            let mut v = vec![];
            let ps = plans();
            let n = if matches!(m, Msg::Syn { .. } | Msg::BadCluster) { 1 } else { ps.len() };
            for (name, plan) in ps.into_iter().take(n) {
                check_decode(m, plan, name, &mut t, &mut v);
            }
            if !matches!(m, Msg::BadCluster) && !(m.ops().is_empty() && m.digest().is_empty()) {
                t.inc("nontrivial_messages");
            }
            (t, v)
        })
        .collect();
    collect(&mut part, results, want);
    part.sample(describe(&msgs[msgs.len() / 3]));
    part.sample(describe(&msgs[msgs.len() - 7]));
    part.states = msgs.len() as u64;
    part.transitions = part.tally.get("decode_cases") + part.tally.get("reencode_cases");
    part.executions = part.transitions;
    part.distinct_nontrivial = part.tally.get("nontrivial_messages");
    part.require("with_several_blocks");
    part.require("with_raw_block");
    part.require("with_compressed_block");
    part.require("reencode_cases");
    part
}

fn collect(part: &mut Part, results: Vec<(Tally, Vec<Viol>)>, want: &[&str]) {
    let mut viols = vec![];
    for (t, v) in results {
        part.tally.merge(&t);
        viols.extend(v);
    }
    viols.sort_by_key(|v| v.replay.to_string().len());
    if want.contains(&"C08") {
        for v in viols {
            part.violation("C08", v.what, v.sig, v.replay);
        }
    }
}

/// Part 2: one long string per message, every length class x position x content.
pub fn long_strings(want: &[&str], tier: Tier) -> Part {
    let mut part = Part::new("wire/length-classes");
    part.rule = "messages with one long string (node id of a digest entry, node id of a member header, key, value, or cluster id) of every length class {0,1,255,256,16383,16384,16385,40000,65000} x content {repeated, 7-bit uniform, mixed 1-2 byte UTF-8}, surrounded by 0..2 small ops, under the 5 block layouts; same oracles as the structural part; non-trivial = cases whose stream has more than one block".into();
    let contents = [Content::Repeat, Content::Full7, Content::Mixed];
    let small_kv = |v: u64| Op::Kv { key: format!("k{v}"), value: "v".into(), version: v, status: 0 };
    let x = Id::v4("x", 1, 9);
    let mut msgs: Vec<Msg> = vec![];
    for (ci, c) in contents.iter().enumerate() {
        for (li, len) in LEN_CLASSES.iter().enumerate() {
            let s = text(*len, *c, (ci * 100 + li) as u64);
            let hdr = Op::Node { id: x.clone(), gc: 0, from: 0 };
            // as value, as key, as member id, as digest id, as cluster id
            for before in 0..tier.pick(2usize, 3usize) {
                let mut ops = vec![hdr.clone()];
                for v in 0..before as u64 {
                    ops.push(small_kv(v + 1));
                }
                let mut with_value = ops.clone();
                with_value.push(Op::Kv { key: "key".into(), value: s.clone(), version: 10, status: 2 });
                with_value.push(small_kv(11));
                msgs.push(Msg::Ack { ops: with_value.clone() });
                msgs.push(Msg::SynAck { digest: vec![DigestEntry { id: x.clone(), heartbeat: 1, gc: 0, mv: 0 }], ops: with_value });
                let mut with_key = ops.clone();
                with_key.push(Op::Kv { key: s.clone(), value: "v".into(), version: 10, status: 0 });
                msgs.push(Msg::Ack { ops: with_key });
            }
            msgs.push(Msg::Ack { ops: vec![Op::Node { id: Id::v4(&s, 3, 4), gc: 1, from: 0 }, small_kv(2)] });
            msgs.push(Msg::Syn { digest: vec![DigestEntry { id: Id::v4(&s, 3, 4), heartbeat: 1, gc: 2, mv: 3 }], cluster_id: "c".into() });
            msgs.push(Msg::Syn { digest: vec![], cluster_id: s.clone() });
            // key and value both long (two long strings)
            if *len <= 16_385 {
                msgs.push(Msg::Ack { ops: vec![hdr.clone(), Op::Kv { key: s.clone(), value: s.clone(), version: 1, status: 0 }] });
            }
        }
    }
    part.bounds = json!({"length_classes": LEN_CLASSES, "contents": ["repeat","7bit","mixed-utf8"], "messages": msgs.len()});
    let results: Vec<(Tally, Vec<Viol>)> = msgs
        .par_iter()
        .map(|m| {
            let mut t = Tally::default();
            let mut v = vec![];
            let ps = plans();
            let n = if matches!(m, Msg::Syn { .. }) { 1 } else { ps.len() };
            for (name, plan) in ps.into_iter().take(n) {
                // 7-byte blocks of a 65,000-byte op make 9,000 blocks: still legal
                check_decode(m, plan, name, &mut t, &mut v);
            }
            (t, v)
        })
        .collect();
    collect(&mut part, results, want);
    part.sample(describe(&msgs[msgs.len() / 2]));
    part.states = msgs.len() as u64;
    part.transitions = part.tally.get("decode_cases") + part.tally.get("reencode_cases");
    part.executions = part.transitions;
    part.distinct_nontrivial = part.tally.get("with_several_blocks");
    part.require("with_several_blocks");
    part
}

/// Part 3: real emissions. States are installed on a real node (own keys through the public API),
/// the node also holds copies, with data, of members of every address class and of two pairs of members sharing an address (a restarted node's two incarnations); its real SYN-ACK / ACK / SYN are encoded by the real encoder and read by the independent one.
pub fn real_emissions(want: &[&str], tier: Tier, deadline: Instant) -> Part {
    let mut part = Part::new("wire/real-emissions");
    part.rule = "a real node owning 0..4 keys whose key/value lengths run over the length classes (three contents; all statuses), or 64..3,000 (thorough 20,000) entries whose operation stream is up to ~10 MB (thorough ~30 MB, filling the datagram) before compression, answers a real SYN: its SYN, SYN-ACK and ACK are serialized by the real encoder; the independent decoder must read exactly the in-memory message (message view), serialized_len() must equal the bytes written, and real decode(real encode(m)) == m; non-trivial = emitted messages whose delta carries at least one key-value".into();
    let contents = [Content::Repeat, Content::Full7, Content::Mixed];
    let lens: Vec<usize> = if tier == Tier::Quick { vec![0, 1, 255, 256, 16_383, 16_384, 16_385, 40_000] } else { LEN_CLASSES.to_vec() };
    // cases: (content, [(klen, vlen, status)])
    let mut cases: Vec<(Content, Vec<(usize, usize, u8)>)> = vec![];
    for c in contents {
        cases.push((c, vec![]));
        for &l in &lens {
            for st in 0..3u8 {
                cases.push((c, vec![(3, l, st)]));
                cases.push((c, vec![(3, 10, 0), (4, l, st), (5, 7, 1)]));
            }
            if l > 0 && l <= 16_385 {
                cases.push((c, vec![(l, 5, 0)]));
                cases.push((c, vec![(l, l, 0), (3, 3, 2)]));
            }
            for &l2 in &lens {
                if l + l2 < 60_000 && l2 >= 255 {
                    cases.push((c, vec![(3, l, 0), (4, l2, 2)]));
                }
            }
        }
    }
    // many entries in one delta: streams of many blocks, up to tens of MB uncompressed in one datagram
    // (a block of a repeated character shrinks to a few dozen bytes)
    let bulk: Vec<(Content, usize, usize)> = if tier == Tier::Quick {
        vec![(Content::Repeat, 64, 16_000), (Content::Repeat, 600, 16_000), (Content::Repeat, 3_000, 270), (Content::Mixed, 300, 270), (Content::Full7, 300, 100)]
    } else {
        vec![(Content::Repeat, 64, 16_000), (Content::Repeat, 600, 16_000), (Content::Repeat, 2_500, 16_000), (Content::Repeat, 3_000, 270), (Content::Repeat, 20_000, 100), (Content::Mixed, 300, 270), (Content::Mixed, 2_000, 270), (Content::Full7, 300, 100), (Content::Full7, 2_000, 40)]
    };
    for (c, n, vl) in bulk {
        cases.push((c, (0..n).map(|i| (5, vl, if c == Content::Repeat { 0 } else { (i % 3) as u8 })).collect()));
    }
    part.bounds = json!({"cases": cases.len(), "length_classes": lens, "bulk_cases": "entries x value length: 64x16000, 600x16000, 3000x270 (repeated character), 300x270 (mixed), 300x100 (7-bit); thorough adds 2500x16000, 20000x100, 2000x270, 2000x40"});
    let capped = std::sync::atomic::AtomicBool::new(false);
    let results: Vec<(Tally, Vec<Viol>)> = cases
        .par_iter()
        .enumerate()
        .map(|(ci, (content, kvs))| {
            let mut t = Tally::default();
            let mut v: Vec<Viol> = vec![];
            if Instant::now() > deadline {
                capped.store(true, std::sync::atomic::Ordering::Relaxed);
                return (t, v);
            }
            let owner_ids = [
                Id::v4("owner", 1, 10_001),
                Id { node_id: "owner-mapped".into(), generation: 1, addr: "[::ffff:10.0.0.7]:7280".parse().unwrap() },
                Id { node_id: "owner-v6".into(), generation: u64::MAX, addr: "[2001:db8::1]:65535".parse().unwrap() },
            ];
            let mut node = Node::new(&owner_ids[ci % owner_ids.len()], &NodeOpts::default());
            // the owner also knows (and advertises, with data) members whose ids use every address class
            {
                let mut others = ids();
                let plain = others.len();
                for (a, b) in twins() {
                    others.push(a);
                    others.push(b);
                }
                let digest: Vec<DigestEntry> = others.iter().map(|id| DigestEntry { id: id.clone(), heartbeat: 1, gc: 0, mv: 0 }).collect();
                node.cc.verif_process_message(real::build_real(&Msg::Syn { digest, cluster_id: "c".into() }).unwrap());
                let mut ops = vec![];
                for (k, id) in others.iter().enumerate() {
                    // (the members sharing an address always carry data, so that both are in every delta)
                    if (k + ci) % 3 == 0 || k >= plain {
                        ops.push(Op::Node { id: id.clone(), gc: 0, from: 0 });
                        ops.push(Op::Kv { key: "mk".into(), value: "mv".into(), version: 1 + k as u64, status: (k % 3) as u8 });
                    }
                }
                match real::build_real(&Msg::Ack { ops }) {
                    Ok(m) => {
                        node.cc.verif_process_message(m);
                    }
                    Err(e) => {
                        v.push(Viol { what: format!("the real decoder rejects a well-formed ACK that fills the node's copies (members of every address class, two pairs of members sharing an address): {e}"), sig: "decode-disagreement".into(), replay: json!({"engine":"wire","direction":"independent-encoder->real-decoder","family":"real-emissions set-up"}) });
                        return (t, v);
                    }
                }
            }
            let mut shape = vec![];
            for (i, (kl, vl, st)) in kvs.iter().enumerate() {
                let key = if *kl <= 5 { format!("{}", "kkkkk".chars().take(*kl).collect::<String>() + &i.to_string()) } else { text(*kl, *content, (ci * 10 + i) as u64) };
                let val = text(*vl, *content, (ci * 10 + i + 5) as u64);
                let ns = node.cc.self_node_state();
                match st {
                    0 => ns.set(&key, &val),
                    1 => {
                        ns.set(&key, &val);
                        ns.delete(&key)
                    }
                    _ => ns.set_with_ttl(&key, &val),
                }
                if kvs.len() <= 8 {
                    shape.push(json!({"key_len": key.len(), "value_len": vl, "status": st}));
                } else if i == 0 {
                    shape.push(json!({"entries": kvs.len(), "value_len": vl}));
                }
            }
            let replay = json!({"engine":"wire","direction":"real-encoder->independent-decoder","content":format!("{content:?}"),"owner_entries":shape});
            let peer = Id::v4("peer", 1, 10_002);
            let syn_in = real::build_real(&Msg::Syn { digest: vec![DigestEntry { id: peer.clone(), heartbeat: 1, gc: 0, mv: 0 }], cluster_id: "c".into() }).unwrap();
            let mut emitted: Vec<chitchat::ChitchatMessage> = vec![node.cc.verif_create_syn_message()];
            if let Some(r) = node.cc.verif_process_message(syn_in) {
                emitted.push(r);
            }
            let synack_in = real::build_real(&Msg::SynAck { digest: vec![DigestEntry { id: peer, heartbeat: 2, gc: 0, mv: 0 }], ops: vec![] }).unwrap();
            if let Some(r) = node.cc.verif_process_message(synack_in) {
                emitted.push(r);
            }
            emitted.push(node.cc.verif_create_syn_message());
            // the same state under other size budgets (block threshold = min(16384, budget), so the
            // stream is cut differently and truncated at different entries)
            let peer_syn = real::build_real(&Msg::Syn { digest: vec![], cluster_id: "c".into() }).unwrap();
            for budget in [100usize, 101, 300, 1_000, 16_383, 16_384, 16_385, 16_400, 20_000, 40_100, 65_506] {
                if let Ok(Some(m)) = guarded(|| node.cc.verif_compute_delta(&peer_syn, budget)) {
                    emitted.push(m);
                }
            }
            for m in emitted {
                t.inc("emitted_messages");
                let res = guarded(|| (real::real_encode(&m), m.serialized_len()));
                let (bytes, announced) = match res {
                    Ok(x) => x,
                    Err(p) => {
                        v.push(Viol { what: format!("real encoder panicked: {p}"), sig: format!("panic:{}", short_loc(&p)), replay: replay.clone() });
                        continue;
                    }
                };
                if announced != bytes.len() {
                    v.push(Viol { what: format!("serialized_len() announces {announced}, {} bytes written", bytes.len()), sig: "announced-length".into(), replay: replay.clone() });
                }
                let view = real::meaning_of_real(&m);
                if view.members().iter().any(|md| !md.kvs.is_empty()) {
                    t.inc("emitted_with_key_values");
                }
                match codec::decode(&bytes) {
                    Ok(d) => {
                        if d.consumed != bytes.len() {
                            v.push(Viol { what: format!("independent decoder consumed {} of {} bytes", d.consumed, bytes.len()), sig: "trailing-bytes".into(), replay: replay.clone() });
                        }
                        if real::meaning_of_ast(&d.msg, false).ok().as_ref() != Some(&view) {
                            v.push(Viol { what: format!("independent decoder reads the {} differently from the in-memory message", view.kind()), sig: "decode-disagreement".into(), replay: replay.clone() });
                        }
                        if let Some(l) = real::delta_serialized_len(&m) {
                            if l != d.stream_len {
                                v.push(Viol { what: format!("delta announces {l} bytes, its stream occupies {}", d.stream_len), sig: "announced-length".into(), replay: replay.clone() });
                            }
                        }
                        if d.blocks.compressed + d.blocks.raw > 1 {
                            t.inc("with_several_blocks");
                        }
                        if std::env::var("CCMC_WIRE_DEBUG").is_ok() && kvs.len() > 8 {
                            eprintln!("bulk {:?} n={} vl={} -> {} kind {} blocks {} uncompressed {} bytes {}", content, kvs.len(), kvs[0].1, view.kind(), d.msg.ops().len(), d.blocks.compressed + d.blocks.raw, d.blocks.uncompressed_len, bytes.len());
                        }
                        t.max("max_blocks_in_one_stream", (d.blocks.compressed + d.blocks.raw) as u64);
                        t.max("max_uncompressed_stream_bytes", d.blocks.uncompressed_len as u64);
                        if d.blocks.raw > 0 {
                            t.inc("with_raw_block");
                        }
                    }
                    Err(e) => v.push(Viol { what: format!("independent decoder rejects a real {}: {}", view.kind(), e.0), sig: "decode-disagreement".into(), replay: replay.clone() }),
                }
                match real::real_decode(&bytes) {
                    Ok((m2, used)) => {
                        if m2 != m || used != bytes.len() {
                            v.push(Viol { what: "real decode(real encode(m)) != m".into(), sig: "roundtrip".into(), replay: replay.clone() });
                        }
                    }
                    Err(e) => v.push(Viol { what: format!("real decoder rejects the real encoder's output: {e}"), sig: "roundtrip".into(), replay: replay.clone() }),
                }
            }
            (t, v)
        })
        .collect();
    collect(&mut part, results, want);
    part.sample(json!({"content":"Mixed","owner_entries":[{"key_len":4,"value_len":16384,"status":2}],"emitted":["syn","synack","ack","syn"]}));
    part.states = cases.len() as u64;
    part.transitions = part.tally.get("emitted_messages");
    part.executions = part.transitions;
    part.distinct_nontrivial = part.tally.get("emitted_with_key_values");
    if capped.load(std::sync::atomic::Ordering::Relaxed) {
        part.exhaustive = false;
        part.caps_hit.push("wall cap".into());
    }
    part.require("with_several_blocks");
    part.require("emitted_with_key_values");
    part
}

/// Part 4: the decoder has no memory. A datagram that fails to decode — after any number of its
/// blocks were read — must not influence how the next datagram is decoded on the same thread.
pub fn after_failure(want: &[&str]) -> Part {
    let mut part = Part::new("wire/decode-after-a-failed-decode");
    part.rule = "for every damaged datagram of a family (ACK / SYN-ACK of 1-3 members under 3 block layouts: the terminator byte removed, cut after each complete block, cut inside a block, a corrupted op tag in the last block, a wrong block tag, junk) followed on the same thread by each of 4 valid messages (ACK with other members, SYN-ACK, SYN, BadCluster): the damaged one is rejected without panic and the valid one then decodes to exactly its message, all bytes consumed; also two damaged ones in a row, then the valid one; non-trivial = pairs whose first datagram failed after at least one complete block".into();
    let ids = ids();
    let kv = |k: &str, v: &str, ver: u64, st: u8| Op::Kv { key: k.into(), value: v.into(), version: ver, status: st };
    let big = text(9_000, Content::Mixed, 11);
    let bad_sources: Vec<Msg> = vec![
        Msg::Ack { ops: vec![Op::Node { id: ids[0].clone(), gc: 0, from: 0 }, kv("a", "1", 1, 0), kv("b", &big, 2, 0), kv("c", &big, 3, 2), Op::Node { id: ids[1].clone(), gc: 2, from: 0 }, kv("d", &big, 3, 0)] },
        Msg::SynAck { digest: vec![DigestEntry { id: ids[0].clone(), heartbeat: 3, gc: 0, mv: 1 }], ops: vec![Op::Node { id: ids[3].clone(), gc: 0, from: 1 }, kv("x", &big, 2, 0), kv("y", "", 3, 1), Op::Node { id: ids[0].clone(), gc: 0, from: 0 }, Op::SetMax(4)] },
        Msg::Ack { ops: vec![Op::Node { id: ids[2].clone(), gc: 0, from: 0 }, kv("only", "v", 1, 0)] },
    ];
    let goods: Vec<Msg> = vec![
        Msg::Ack { ops: vec![Op::Node { id: ids[4].clone(), gc: 1, from: 0 }, kv("g1", "good", 2, 0), kv("g2", &big, 3, 0), Op::Node { id: ids[0].clone(), gc: 0, from: 5 }, kv("a", "other", 6, 0)] },
        Msg::SynAck { digest: vec![DigestEntry { id: ids[1].clone(), heartbeat: 9, gc: 1, mv: 2 }], ops: vec![Op::Node { id: ids[1].clone(), gc: 1, from: 0 }, Op::SetMax(2)] },
        Msg::Syn { digest: vec![DigestEntry { id: ids[2].clone(), heartbeat: 1, gc: 0, mv: 0 }], cluster_id: "c".into() },
        Msg::BadCluster,
    ];
    // damaged datagrams
    let mut bads: Vec<(String, Vec<u8>, bool)> = vec![("junk".into(), b"junk".to_vec(), false)];
    for (si, src) in bad_sources.iter().enumerate() {
        for (pname, plan) in [("auto", StreamPlan::default()), ("blocks-of-4000", StreamPlan { block_size: 4_000, ..StreamPlan::default() }), ("raw-blocks-of-4000", StreamPlan { block_size: 4_000, mode: codec::BlockMode::Raw, trailing_empty_block: false })] {
            let bytes = codec::encode_with(src, plan);
            let Ok(dec) = codec::decode(&bytes) else { continue };
            let stream_start = bytes.len() - dec.stream_len;
            // block boundaries of the stream
            let mut bounds = vec![];
            let mut pos = stream_start;
            while pos < bytes.len() && bytes[pos] != 0 {
                let n = u16::from_le_bytes([bytes[pos + 1], bytes[pos + 2]]) as usize;
                pos += 3 + n;
                bounds.push(pos);
            }
            let name = |what: &str| format!("message {si} [{pname}] {what}");
            bads.push((name("without its terminator"), bytes[..bytes.len() - 1].to_vec(), !bounds.is_empty()));
            for (bi, b) in bounds.iter().enumerate() {
                if *b < bytes.len() - 1 {
                    bads.push((name(&format!("cut after block {}", bi + 1)), bytes[..*b].to_vec(), true));
                    bads.push((name(&format!("cut inside block {}", bi + 2)), bytes[..(*b + 5).min(bytes.len() - 1)].to_vec(), true));
                }
                // a block tag that does not exist, at the start of the next block / terminator
                let mut wrong = bytes.clone();
                wrong[*b] = 7;
                bads.push((name(&format!("wrong block tag after block {}", bi + 1)), wrong, true));
            }
            if pname == "raw-blocks-of-4000" {
                // raw blocks: the first byte of the stream's first op is its tag
                if let Some(last) = bounds.iter().rev().nth(1).copied().or(Some(stream_start)) {
                    let mut wrong = bytes.clone();
                    if last + 3 < wrong.len() {
                        wrong[last + 3] = 9; // an op tag that does not exist (if this byte starts an op) or a corrupted field
                        bads.push((name("corrupted byte at the start of the last block"), wrong, bounds.len() > 1));
                    }
                }
            }
        }
    }
    part.bounds = json!({"damaged_datagrams": bads.len(), "valid_followers": goods.len()});
    let good_bytes: Vec<(Vec<u8>, real::Meaning)> = goods.iter().map(|g| (codec::encode(g), real::meaning_of_ast(g, false).expect("valid"))).collect();
    // everything on ONE thread: the decoder's state, if it had any, would be thread-local
    let mut viols: Vec<Viol> = vec![];
    let mut check_good = |ctx: &str, part: &mut Part, viols: &mut Vec<Viol>| {
        for (gi, (gb, want_m)) in good_bytes.iter().enumerate() {
            part.tally.inc("valid_decodes_after_a_failure");
            match guarded(|| real::real_decode(gb)) {
                Ok(Ok((m, used))) => {
                    if real::meaning_of_real(&m) != *want_m || used != gb.len() {
                        viols.push(Viol { what: format!("after {ctx}, valid message {gi} decodes to a different message (or leaves bytes)"), sig: "decoder-has-memory".into(), replay: json!({"engine":"wire","family":"after-failure","context":ctx,"valid":gi}) });
                    }
                }
                Ok(Err(e)) => viols.push(Viol { what: format!("after {ctx}, valid message {gi} is rejected: {e}"), sig: "decoder-has-memory".into(), replay: json!({"engine":"wire","family":"after-failure","context":ctx,"valid":gi}) }),
                Err(p) => viols.push(Viol { what: format!("after {ctx}, decoding valid message {gi} panicked: {p}"), sig: format!("panic:{}", short_loc(&p)), replay: json!({"engine":"wire","family":"after-failure","context":ctx,"valid":gi}) }),
            }
        }
    };
    let mut prev: Option<&(String, Vec<u8>, bool)> = None;
    for bad in &bads {
        part.tally.inc("damaged_datagrams");
        match guarded(|| real::real_decode(&bad.1)) {
            Err(p) => {
                viols.push(Viol { what: format!("decoding a damaged datagram ({}) panicked: {p}", bad.0), sig: format!("panic:{}", short_loc(&p)), replay: json!({"engine":"wire","family":"after-failure","context":bad.0}) });
            }
            Ok(Ok(_)) => {
                part.tally.inc("damaged_datagrams_that_still_decode");
            }
            Ok(Err(_)) => {
                if bad.2 {
                    part.tally.inc("failures_after_a_complete_block");
                }
            }
        }
        check_good(&format!("the damaged datagram `{}`", bad.0), &mut part, &mut viols);
        if let Some(p) = prev {
            let _ = guarded(|| real::real_decode(&p.1));
            let _ = guarded(|| real::real_decode(&bad.1));
            check_good(&format!("the damaged datagrams `{}` and `{}`", p.0, bad.0), &mut part, &mut viols);
        }
        prev = Some(bad);
        if viols.len() > 20 {
            break;
        }
    }
    viols.sort_by_key(|v| v.what.len());
    if want.contains(&"C08") {
        for v in viols {
            part.violation("C08", v.what, v.sig, v.replay);
        }
    }
    part.states = part.tally.get("damaged_datagrams");
    part.transitions = part.tally.get("valid_decodes_after_a_failure");
    part.executions = part.transitions;
    part.distinct_nontrivial = part.tally.get("failures_after_a_complete_block");
    part.sample(json!({"damaged": "message 0 [blocks-of-4000] cut after block 2", "then": "valid ACK"}));
    part.require("failures_after_a_complete_block");
    part
}

pub fn run(property: &'static str, tier: Tier, started: Instant) -> Vec<Part> {
    let want = [property];
    vec![
        structural(&want, tier.pick(4, 5)),
        long_strings(&want, tier),
        real_emissions(&want, tier, started + std::time::Duration::from_secs(tier.pick(50, 1200))),
        after_failure(&want),
    ]
}
