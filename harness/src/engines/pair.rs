//! `pair` — sender copy x receiver copy x truncation point (C14; C04 scope clause; C20; C07 content).
//!
//! Arbitrary copies of a member X are installed on two real nodes *through the wire* (crafted
//! messages built by the independent encoder), then the real delta computation and the real
//! admission logic are confronted with the reference admission table of DESIGN.md Appendix B.

use std::collections::BTreeMap;
use std::time::Instant;

use rayon::prelude::*;
use serde_json::{json, Value};

use crate::codec::{self, DigestEntry, Id, Msg, Op};
use crate::node::{Node, NodeOpts};
use crate::real;
use crate::report::{Part, Tier};
use crate::util::{guarded, short_loc, Tally};

/// (key index, version, status)
pub type Ent = (u8, u64, u8);

#[derive(Clone, Debug, PartialEq, Eq, Hash, PartialOrd, Ord)]
pub struct CopySpec {
    pub gc: u64,
    pub mv: u64,
    pub entries: Vec<Ent>, // ascending by version
}

const KEYS: [&str; 3] = ["k1", "k2", "k3"];

fn value_of(key: u8, version: u64, status: u8) -> String {
    if status == 1 {
        String::new()
    } else {
        format!("value-{}-of-key-{}", version, key)
    }
}

fn member_x() -> Id {
    // a long node id makes the member header alone exceed 100 bytes, so that the smallest legal
    // budget yields a header-only delta
    Id::v4(&"x".repeat(70), 7, 20_000)
}

fn kv_op(e: &Ent) -> Op {
    Op::Kv { key: KEYS[e.0 as usize].to_string(), value: value_of(e.0, e.1, e.2), version: e.1, status: e.2 }
}

pub fn spec_json(c: &CopySpec) -> Value {
    json!({"gc": c.gc, "mv": c.mv, "entries": c.entries.iter().map(|e| json!({"key": KEYS[e.0 as usize], "version": e.1, "status": e.2})).collect::<Vec<_>>()})
}

pub fn spec_from_json(v: &Value) -> Option<CopySpec> {
    Some(CopySpec {
        gc: v["gc"].as_u64()?,
        mv: v["mv"].as_u64()?,
        entries: v["entries"]
            .as_array()?
            .iter()
            .filter_map(|e| Some((KEYS.iter().position(|k| Some(*k) == e["key"].as_str())? as u8, e["version"].as_u64()?, e["status"].as_u64()? as u8)))
            .collect(),
    })
}

fn ack(ops: Vec<Op>) -> chitchat::ChitchatMessage {
    real::build_real(&Msg::Ack { ops }).expect("crafted ack must decode")
}

/// Installs a copy of X on a fresh real node. Returns None when the real node does not end up
/// holding exactly the requested copy (shape not installable through the wire).
pub fn install(name: &str, port: u16, spec: &CopySpec) -> Option<Node> {
    let mut node = Node::new(&Id::v4(name, 0, port), &NodeOpts::default());
    if install_on(&mut node, &member_x(), spec) {
        Some(node)
    } else {
        None
    }
}

/// Installs a copy of member `x` on an existing real node, through the wire.
pub fn install_on(node: &mut Node, x: &Id, spec: &CopySpec) -> bool {
    let x = x.clone();
    let syn = real::build_real(&Msg::Syn { digest: vec![DigestEntry { id: x.clone(), heartbeat: 1, gc: 0, mv: 0 }], cluster_id: "c".into() }).unwrap();
    node.cc.verif_process_message(syn);
    let maxkv = spec.entries.last().map(|e| e.1).unwrap_or(0);
    if !spec.entries.is_empty() {
        let mut ops = vec![Op::Node { id: x.clone(), gc: spec.gc, from: 0 }];
        ops.extend(spec.entries.iter().map(kv_op));
        node.cc.verif_process_message(ack(ops));
        if spec.mv > maxkv {
            node.cc.verif_process_message(ack(vec![Op::Node { id: x.clone(), gc: spec.gc, from: maxkv }, Op::SetMax(spec.mv)]));
        }
    } else if spec.gc > 0 || spec.mv > 0 {
        let mut ops = vec![Op::Node { id: x.clone(), gc: spec.gc, from: 0 }];
        if spec.mv > 0 {
            ops.push(Op::SetMax(spec.mv));
        }
        node.cc.verif_process_message(ack(ops));
    }
    read_copy_of(node, &x).as_ref() == Some(spec)
}

pub fn read_copy(node: &Node) -> Option<CopySpec> {
    read_copy_of(node, &member_x())
}

pub fn read_copy_of(node: &Node, x: &Id) -> Option<CopySpec> {
    let ns = node.cc.node_state(&real::to_real_id(x))?;
    let mut entries: Vec<Ent> = ns
        .key_values_including_deleted()
        .map(|(k, vv)| (KEYS.iter().position(|x| *x == k).unwrap_or(9) as u8, vv.version, crate::node::status_kind(vv)))
        .collect();
    entries.sort_by_key(|e| e.1);
    Some(CopySpec { gc: ns.last_gc_version(), mv: ns.max_version(), entries })
}

/// Values of the receiver copy must equal what the wire carried.
fn values_ok(node: &Node) -> bool {
    let Some(ns) = node.cc.node_state(&real::to_real_id(&member_x())) else { return false };
    ns.key_values_including_deleted().all(|(k, vv)| {
        let ki = KEYS.iter().position(|x| *x == k).unwrap_or(9) as u8;
        vv.value == value_of(ki, vv.version, crate::node::status_kind(vv))
    })
}

// ------------------------------------------------------------------ reference admission table

/// Ops the sender is expected to emit for X, before truncation.
pub fn expected_ops(s: &CopySpec, r: &CopySpec) -> Vec<Op> {
    expected_ops_for(&member_x(), s, r)
}

pub fn expected_ops_for(x: &Id, s: &CopySpec, r: &CopySpec) -> Vec<Op> {
    if s.mv <= r.mv {
        return vec![];
    }
    let reset = r.gc < s.gc && r.mv < s.gc;
    let from = if reset { 0 } else { r.mv };
    let mut ops = vec![Op::Node { id: x.clone(), gc: s.gc, from }];
    let stale: Vec<&Ent> = s.entries.iter().filter(|e| e.1 > from).collect();
    if stale.is_empty() {
        ops.push(Op::SetMax(s.mv));
    } else {
        ops.extend(stale.into_iter().map(kv_op));
    }
    ops
}

/// Receiver-side reference: the copy after a member delta (gc, from, entries, set_max) arrives.
/// Returns (new copy, was reset).
pub fn admit(r: &CopySpec, dgc: u64, dfrom: u64, dents: &[Ent], set_max: Option<u64>) -> (CopySpec, bool) {
    let p = set_max.unwrap_or_else(|| dents.last().map(|e| e.1).unwrap_or(0));
    if dfrom > r.mv {
        return (r.clone(), false);
    }
    let compatible = dgc <= r.gc || dgc <= r.mv;
    let mut cur = r.clone();
    let mut was_reset = false;
    if !compatible {
        if dfrom != 0 {
            return (r.clone(), false);
        }
        cur = CopySpec { gc: dgc, mv: 0, entries: vec![] };
        was_reset = true;
    } else if r.mv >= p {
        return (r.clone(), false);
    }
    let floor = cur.mv;
    let mut map: BTreeMap<u8, (u64, u8)> = cur.entries.iter().map(|e| (e.0, (e.1, e.2))).collect();
    for e in dents {
        if e.1 <= floor {
            continue;
        }
        if e.2 != 0 && e.1 <= cur.gc {
            continue;
        }
        match map.get(&e.0) {
            Some((v, _)) if *v >= e.1 => {}
            _ => {
                map.insert(e.0, (e.1, e.2));
            }
        }
    }
    let mut entries: Vec<Ent> = map.into_iter().map(|(k, (v, s))| (k, v, s)).collect();
    entries.sort_by_key(|e| e.1);
    (CopySpec { gc: cur.gc, mv: p, entries }, was_reset)
}

// ------------------------------------------------------------------ enumeration

fn subsets_up_to(versions: &[u64], max: usize) -> Vec<Vec<u64>> {
    let mut out = vec![vec![]];
    let n = versions.len();
    for mask in 1u32..(1 << n) {
        if mask.count_ones() as usize > max {
            continue;
        }
        out.push((0..n).filter(|i| mask & (1 << i) != 0).map(|i| versions[i]).collect());
    }
    out
}

/// All installable sender copies with watermark and versions in 0..=vmax, up to 3 keys, every
/// status (deletion statuses only above the watermark: a replica drops the others on arrival).
pub fn sender_copies(vmax: u64) -> Vec<CopySpec> {
    let mut out = vec![];
    for gc in 0..=vmax {
        for mv in 0..=vmax {
            let versions: Vec<u64> = (1..=mv).collect();
            for subset in subsets_up_to(&versions, 3) {
                // statuses
                let n = subset.len();
                let mut combos = vec![vec![]];
                for v in &subset {
                    let allowed: &[u8] = if *v > gc { &[0, 1, 2] } else { &[0] };
                    let mut next = vec![];
                    for c in &combos {
                        for st in allowed {
                            let mut c2: Vec<u8> = c.clone();
                            c2.push(*st);
                            next.push(c2);
                        }
                    }
                    combos = next;
                }
                for st in combos {
                    // keys assigned in version order: k1,k2,k3 and the rotation k2,k3,k1 when n>=2
                    let assigns: Vec<Vec<u8>> = if n >= 2 { vec![(0..n as u8).collect(), (0..n as u8).map(|i| (i + 1) % n as u8).collect()] } else { vec![(0..n as u8).collect()] };
                    for keys in assigns {
                        let entries: Vec<Ent> = (0..n).map(|i| (keys[i], subset[i], st[i])).collect();
                        out.push(CopySpec { gc, mv, entries });
                    }
                }
            }
        }
    }
    out
}

/// Two canonical receiver contents per frontier: an entry for k1 at mv (plain), or empty.
pub fn receiver_copies(vmax: u64) -> Vec<CopySpec> {
    let mut out = vec![];
    for gc in 0..=vmax {
        for mv in 0..=vmax {
            out.push(CopySpec { gc, mv, entries: vec![] });
            if mv > 0 {
                out.push(CopySpec { gc, mv, entries: vec![(0, mv, 0)] });
            }
        }
    }
    out
}

struct Viol {
    prop: &'static str,
    what: String,
    sig: String,
    replay: Value,
}

fn case_json(kind: &str, s: &CopySpec, r: &CopySpec, k: usize) -> Value {
    json!({"engine":"pair","kind":kind,"sender":spec_json(s),"receiver":spec_json(r),"ops_kept":k})
}

/// One (sender, receiver) pair, every truncation point. `props`: which properties may be reported.
fn check_pair(sender: &Node, s: &CopySpec, r: &CopySpec, tally: &mut Tally, viols: &mut Vec<Viol>) {
    let x = member_x();
    let exp_ops = expected_ops(s, r);
    // truncation points: 0 = nothing offered at all is only possible when exp_ops is empty
    // (ops kept, slack): besides the exact budget for k ops, a budget with 9 spare bytes — room for a
    // SetMaxVersion op but not for the next key-value — must yield the same k ops
    let mut ks: Vec<(usize, usize)> = if exp_ops.is_empty() { vec![(0, 0)] } else { (1..=exp_ops.len()).map(|k| (k, 0)).collect() };
    for k in 1..exp_ops.len() {
        if codec::op_len(&exp_ops[k]) > 12 {
            ks.push((k, 9));
            ks.push((k, 12));
        }
    }
    for (k, slack) in ks {
        tally.inc("cases");
        let Some(mut recv) = install("r", 10_002, r) else {
            tally.inc("receiver_not_installable");
            continue;
        };
        let cb0 = recv.callback_count();
        let syn = recv.cc.verif_create_syn_message();
        // budget that lets exactly k ops through (single block: 3 + bytes + 1)
        let budget = if exp_ops.is_empty() || k == exp_ops.len() { 65_506 } else { (4 + slack + exp_ops[..k].iter().map(codec::op_len).sum::<usize>()).max(100) };
        let reply = match guarded(|| sender.cc.verif_compute_delta(&syn, budget)) {
            Ok(Some(m)) => m,
            Ok(None) => continue,
            Err(p) => {
                viols.push(Viol { prop: "C04", what: format!("sender panicked computing a delta: {p}"), sig: format!("panic:{}", short_loc(&p)), replay: case_json("honest", s, r, k) });
                continue;
            }
        };
        let bytes = match guarded(|| real::real_encode(&reply)) {
            Ok(b) => b,
            Err(p) => {
                viols.push(Viol { prop: "C07", what: format!("the sender's delta cannot be serialized (panic): {p}"), sig: format!("panic:{}", short_loc(&p)), replay: case_json("honest", s, r, k) });
                viols.push(Viol { prop: "C04", what: format!("the sender's delta cannot be serialized (panic): {p}"), sig: format!("panic:{}", short_loc(&p)), replay: case_json("honest", s, r, k) });
                viols.push(Viol { prop: "C14", what: format!("the sender's delta cannot be serialized (panic): {p}"), sig: format!("panic:{}", short_loc(&p)), replay: case_json("honest", s, r, k) });
                continue;
            }
        };
        let dec = match codec::decode(&bytes) {
            Ok(d) => d,
            Err(e) => {
                viols.push(Viol { prop: "C08", what: format!("independent decoder rejects the sender's reply: {}", e.0), sig: "decode-disagreement".into(), replay: case_json("honest", s, r, k) });
                continue;
            }
        };
        let got_ops: Vec<Op> = dec.msg.ops().to_vec();
        let want_ops: Vec<Op> = exp_ops[..k.min(exp_ops.len())].to_vec();
        if got_ops != want_ops {
            let describe = |ops: &[Op]| {
                ops.iter()
                    .map(|o| match o {
                        Op::Node { gc, from, .. } => format!("Node(gc={gc},from={from})"),
                        Op::Kv { key, version, status, .. } => format!("{key}@{version}/{status}"),
                        Op::SetMax(m) => format!("SetMax({m})"),
                    })
                    .collect::<Vec<_>>()
                    .join(" ")
            };
            // which clause is it?
            let (prop, sig): (&'static str, &str) = match (got_ops.first(), want_ops.first()) {
                (None, Some(_)) => ("C14", "sender-ahead-but-empty-delta"),
                (Some(_), None) => ("C14", "delta-offered-although-not-ahead"),
                (Some(Op::Node { from: f1, gc: g1, .. }), Some(Op::Node { from: f2, gc: g2, .. })) if f1 != f2 || g1 != g2 => ("C14", "reset-decision-or-header"),
                _ => ("C07", "delta-content"),
            };
            viols.push(Viol {
                prop,
                what: format!("sender {:?} receiver {:?} budget {budget}: delta [{}], admission table expects [{}]", (s.gc, s.mv), (r.gc, r.mv), describe(&got_ops), describe(&want_ops)),
                sig: sig.into(),
                replay: case_json("honest", s, r, k),
            });
            if prop == "C07" {
                viols.push(Viol { prop: "C14", what: "delta content differs from the admission table".into(), sig: "delta-content".into(), replay: case_json("honest", s, r, k) });
            }
        }
        if bytes.len() > codec::MAX_DATAGRAM {
            viols.push(Viol { prop: "C07", what: format!("ACK of {} bytes", bytes.len()), sig: "datagram-too-large".into(), replay: case_json("honest", s, r, k) });
        }
        // deliver the very bytes to the receiver
        let (msg, _) = real::real_decode(&bytes).expect("real decoder must accept the real encoder's output");
        let before = read_copy(&recv).unwrap();
        let res = guarded(|| recv.cc.verif_process_message(msg));
        if let Err(p) = res {
            viols.push(Viol { prop: "C04", what: format!("receiver panicked applying an honest delta: {p}"), sig: format!("panic:{}", short_loc(&p)), replay: case_json("honest", s, r, k) });
            continue;
        }
        let after = read_copy(&recv).unwrap();
        let cb = recv.callback_count() - cb0;
        // reference outcome, computed from what was actually sent
        let (dgc, dfrom, dents, dset) = split_member(&got_ops, &x);
        let (want_after, was_reset) = if got_ops.is_empty() { (before.clone(), false) } else { admit(&before, dgc, dfrom, &dents, dset) };
        if was_reset {
            tally.inc("resets");
        }
        if got_ops.len() == 1 {
            tally.inc("header_only_deltas");
        }
        if after != want_after || !values_ok(&recv) {
            viols.push(Viol {
                prop: "C14",
                what: format!("receiver {:?} after delta is {:?}, admission table says {:?}", spec_json(&before).to_string(), spec_json(&after).to_string(), spec_json(&want_after).to_string()),
                sig: "receiver-outcome".into(),
                replay: case_json("honest", s, r, k),
            });
        }
        // C14: offered and at least one entry or SetMaxVersion got through => strict progress
        if got_ops.len() >= 2 {
            tally.inc("deltas_with_payload");
            if (after.gc, after.mv) <= (before.gc, before.mv) {
                viols.push(Viol {
                    prop: "C14",
                    what: format!("delta computed from the receiver's own digest was refused: receiver stays at {:?}, sender at {:?}", (before.gc, before.mv), (s.gc, s.mv)),
                    sig: "honest-delta-refused".into(),
                    replay: case_json("honest", s, r, k),
                });
            }
        }
        if got_ops.is_empty() && after != before {
            viols.push(Viol { prop: "C14", what: "receiver changed although nothing was offered".into(), sig: "changed-without-offer".into(), replay: case_json("honest", s, r, k) });
        }
        // C04 frontier monotone
        if (after.gc, after.mv) < (before.gc, before.mv) {
            viols.push(Viol { prop: "C04", what: format!("frontier went {:?} -> {:?}", (before.gc, before.mv), (after.gc, after.mv)), sig: "frontier-decreased".into(), replay: case_json("honest", s, r, k) });
        }
        // C20
        let expect_cb = usize::from(after.gc > before.gc);
        if cb != expect_cb {
            viols.push(Viol {
                prop: "C20",
                what: format!("catch-up callback invoked {cb} times, reset observed: {}", after.gc > before.gc),
                sig: if expect_cb == 1 { "callback-missing-or-repeated" } else { "callback-spurious" }.into(),
                replay: case_json("honest", s, r, k),
            });
        }
    }
}

fn split_member(ops: &[Op], x: &Id) -> (u64, u64, Vec<Ent>, Option<u64>) {
    let mut gc = 0;
    let mut from = 0;
    let mut ents = vec![];
    let mut set = None;
    for op in ops {
        match op {
            Op::Node { id, gc: g, from: f } if id == x => {
                gc = *g;
                from = *f;
            }
            Op::Kv { key, version, status, .. } => ents.push((KEYS.iter().position(|k| k == key).unwrap_or(9) as u8, *version, *status)),
            Op::SetMax(m) => set = Some(*m),
            _ => {}
        }
    }
    (gc, from, ents, set)
}

fn finish_part(part: &mut Part, tally: Tally, viols: Vec<Viol>, want: &[&str]) {
    part.tally.merge(&tally);
    let mut viols = viols;
    viols.sort_by_key(|v| v.replay.to_string().len());
    for v in viols {
        if want.contains(&v.prop) {
            part.violation(v.prop, v.what, v.sig, v.replay);
        }
    }
}

/// C14 sweep: sender copies x receiver copies x truncation points.
pub fn honest_sweep(vmax: u64, want: &[&str], deadline: Instant) -> Part {
    let mut part = Part::new(&format!("pair/honest(versions 0..{vmax})"));
    part.rule = format!("every installable sender copy (watermark, max version in 0..={vmax}; up to 3 keys with distinct versions; every status; two key assignments) x every receiver frontier in 0..={vmax} squared with two contents (entry at max version / empty) x every truncation point of the delta; the sender's real delta (computed from the receiver's real digest) is compared op by op with the admission table, delivered to the real receiver, and the receiver's resulting copy compared with the table; non-trivial = cases in which a delta with payload was produced");
    part.bounds = json!({"version_range": [0, vmax], "max_keys": 3, "statuses": ["set","deleted","delete_after_ttl"], "receiver_contents": 2});
    let senders = sender_copies(vmax);
    let receivers = receiver_copies(vmax);
    part.tally.add("sender_copies", senders.len() as u64);
    part.tally.add("receiver_copies", receivers.len() as u64);
    let capped = std::sync::atomic::AtomicBool::new(false);
    let results: Vec<(Tally, Vec<Viol>)> = senders
        .par_iter()
        .map(|s| {
            let mut tally = Tally::default();
            let mut viols = vec![];
            if Instant::now() > deadline {
                capped.store(true, std::sync::atomic::Ordering::Relaxed);
                return (tally, viols);
            }
            let Some(sender) = install("s", 10_001, s) else {
                tally.inc("sender_not_installable");
                return (tally, viols);
            };
            for r in &receivers {
                check_pair(&sender, s, r, &mut tally, &mut viols);
                if viols.iter().filter(|v| want.contains(&v.prop)).count() > 20 {
                    break;
                }
            }
            // the sender must not have been modified by computing deltas
            if read_copy(&sender).as_ref() != Some(s) {
                viols.push(Viol { prop: "C14", what: "computing deltas modified the sender".into(), sig: "sender-modified".into(), replay: json!({"engine":"pair","sender":spec_json(s)}) });
            }
            (tally, viols)
        })
        .collect();
    let mut tally = Tally::default();
    let mut viols = vec![];
    for (t, v) in results {
        tally.merge(&t);
        viols.extend(v);
    }
    finish_part(&mut part, tally, viols, want);
    part.states = part.tally.get("sender_copies") * part.tally.get("receiver_copies");
    part.transitions = part.tally.get("cases");
    part.executions = part.tally.get("cases");
    part.distinct_nontrivial = part.tally.get("deltas_with_payload");
    if capped.load(std::sync::atomic::Ordering::Relaxed) {
        part.exhaustive = false;
        part.caps_hit.push("wall cap: not every sender copy was processed".into());
    }
    part.sample(json!({"sender": spec_json(&senders[senders.len() / 2]), "receiver": spec_json(&receivers[receivers.len() / 3]), "note": "one of the enumerated pairs; every truncation point of its delta was delivered"}));
    part.require("resets");
    part.require("header_only_deltas");
    part
}

// ------------------------------------------------------------------ arbitrary deltas (C04 scope clause)

#[derive(Clone, Debug)]
pub struct DeltaSpec {
    pub gc: u64,
    pub from: u64,
    pub entries: Vec<Ent>,
    pub set_max: Option<u64>,
}

pub fn delta_json(d: &DeltaSpec) -> Value {
    json!({"gc": d.gc, "from": d.from, "set_max": d.set_max, "entries": d.entries.iter().map(|e| json!({"key": KEYS[e.0 as usize], "version": e.1, "status": e.2})).collect::<Vec<_>>()})
}

pub fn honest_shaped_deltas(vmax: u64) -> Vec<DeltaSpec> {
    let mut out = vec![];
    for gc in 0..=vmax {
        for from in 0..=vmax {
            // header only
            out.push(DeltaSpec { gc, from, entries: vec![], set_max: None });
            for m in 1..=vmax {
                out.push(DeltaSpec { gc, from, entries: vec![], set_max: Some(m) });
            }
            let versions: Vec<u64> = (from + 1..=vmax).collect();
            for subset in subsets_up_to(&versions, 3) {
                if subset.is_empty() {
                    continue;
                }
                let n = subset.len();
                let total = 3usize.pow(n as u32);
                for code in 0..total {
                    let mut c = code;
                    let mut entries = vec![];
                    for (i, v) in subset.iter().enumerate() {
                        entries.push(((i % 3) as u8, *v, (c % 3) as u8));
                        c /= 3;
                    }
                    out.push(DeltaSpec { gc, from, entries, set_max: None });
                }
            }
        }
    }
    out
}

fn delta_ops(d: &DeltaSpec) -> Vec<Op> {
    let mut ops = vec![Op::Node { id: member_x(), gc: d.gc, from: d.from }];
    ops.extend(d.entries.iter().map(kv_op));
    if let Some(m) = d.set_max {
        ops.push(Op::SetMax(m));
    }
    ops
}

/// Delivers one crafted delta to a fresh copy; checks C04 (no panic, monotone), C20, and the
/// receiver reference.
fn check_arbitrary(r: &CopySpec, d: &DeltaSpec, synack: bool, tally: &mut Tally, viols: &mut Vec<Viol>) {
    let Some(mut recv) = install("r", 10_002, r) else {
        tally.inc("receiver_not_installable");
        return;
    };
    tally.inc("cases");
    let cb0 = recv.callback_count();
    let ops = delta_ops(d);
    let msg = if synack { Msg::SynAck { digest: vec![], ops } } else { Msg::Ack { ops } };
    let replay = || json!({"engine":"pair","kind":"arbitrary","receiver":spec_json(r),"delta":delta_json(d),"synack":synack});
    let real_msg = match real::build_real(&msg) {
        Ok(m) => m,
        Err(_) => {
            tally.inc("rejected_by_decoder");
            return;
        }
    };
    let before = read_copy(&recv).unwrap();
    if let Err(p) = guarded(|| recv.cc.verif_process_message(real_msg)) {
        viols.push(Viol { prop: "C04", what: format!("receiver {:?} panicked on delta {}: {p}", (r.gc, r.mv), delta_json(d)), sig: format!("panic:{}", short_loc(&p)), replay: replay() });
        return;
    }
    let after = read_copy(&recv).unwrap();
    if (after.gc, after.mv) < (before.gc, before.mv) {
        viols.push(Viol { prop: "C04", what: format!("frontier went {:?} -> {:?} on delta {}", (before.gc, before.mv), (after.gc, after.mv), delta_json(d)), sig: "frontier-decreased".into(), replay: replay() });
    }
    let reset = after.gc > before.gc;
    for e in &before.entries {
        match after.entries.iter().find(|a| a.0 == e.0) {
            Some(a) if a.1 < e.1 && !reset => viols.push(Viol { prop: "C04", what: format!("version of {} went {} -> {} without reset", KEYS[e.0 as usize], e.1, a.1), sig: "key-version-decreased".into(), replay: replay() }),
            None if !reset => viols.push(Viol { prop: "C04", what: format!("entry {} vanished without reset", KEYS[e.0 as usize]), sig: "entry-vanished".into(), replay: replay() }),
            _ => {}
        }
    }
    let (want, was_reset) = admit(&before, d.gc, d.from, &d.entries, d.set_max);
    if was_reset {
        tally.inc("resets");
    }
    if after != before {
        tally.inc("deltas_with_effect");
    } else {
        tally.inc("deltas_without_effect");
    }
    if after != want {
        viols.push(Viol { prop: "C14", what: format!("receiver {} + delta {} = {}, reference says {}", spec_json(&before), delta_json(d), spec_json(&after), spec_json(&want)), sig: "receiver-outcome".into(), replay: replay() });
    }
    let cb = recv.callback_count() - cb0;
    let expect_cb = usize::from(reset);
    if cb != expect_cb {
        viols.push(Viol { prop: "C20", what: format!("catch-up callback invoked {cb} times, reset observed: {reset}, delta {}", delta_json(d)), sig: if reset { "callback-missing-or-repeated" } else { "callback-spurious" }.into(), replay: replay() });
    }
}

pub fn arbitrary_sweep(vmax: u64, want: &[&str], deadline: Instant) -> Part {
    let mut part = Part::new(&format!("pair/arbitrary(versions 0..{vmax})"));
    part.rule = format!("every honest-shaped member delta (watermark and start version in 0..={vmax}; header only, SetMaxVersion tail, or up to 3 entries with ascending versions above the start and every status) delivered as ACK to every receiver copy (frontiers in 0..={vmax} squared, two contents), whether or not an honest sender could have produced it for that copy; oracle: no panic, frontier monotone, per-key version monotone unless reset, callback iff reset, receiver reference; non-trivial = deliveries that changed the copy");
    part.bounds = json!({"version_range": [0, vmax], "max_entries": 3});
    let deltas = honest_shaped_deltas(vmax);
    let receivers = receiver_copies(vmax);
    part.tally.add("delta_shapes", deltas.len() as u64);
    part.tally.add("receiver_copies", receivers.len() as u64);
    let capped = std::sync::atomic::AtomicBool::new(false);
    let results: Vec<(Tally, Vec<Viol>)> = deltas
        .par_iter()
        .enumerate()
        .map(|(i, d)| {
            let mut tally = Tally::default();
            let mut viols = vec![];
            if Instant::now() > deadline {
                capped.store(true, std::sync::atomic::Ordering::Relaxed);
                return (tally, viols);
            }
            for r in &receivers {
                check_arbitrary(r, d, i % 7 == 0, &mut tally, &mut viols);
                if viols.iter().filter(|v| want.contains(&v.prop)).count() > 20 {
                    break;
                }
            }
            (tally, viols)
        })
        .collect();
    let mut tally = Tally::default();
    let mut viols = vec![];
    for (t, v) in results {
        tally.merge(&t);
        viols.extend(v);
    }
    finish_part(&mut part, tally, viols, want);
    part.states = part.tally.get("delta_shapes") * part.tally.get("receiver_copies");
    part.transitions = part.tally.get("cases");
    part.executions = part.tally.get("cases");
    part.distinct_nontrivial = part.tally.get("deltas_with_effect");
    if capped.load(std::sync::atomic::Ordering::Relaxed) {
        part.exhaustive = false;
        part.caps_hit.push("wall cap".into());
    }
    part.sample(json!({"receiver": spec_json(&receivers[5]), "delta": delta_json(&deltas[deltas.len() / 2])}));
    part.require("resets");
    part
}

// ------------------------------------------------------------------ two members in one honest delta (C14)

/// The companion member's (sender copy, receiver copy): every kind of member delta the sender can
/// put next to X's in the same message.
fn companion_cases() -> Vec<(&'static str, CopySpec, CopySpec)> {
    let c = |gc: u64, mv: u64, entries: &[Ent]| CopySpec { gc, mv, entries: entries.to_vec() };
    vec![
        ("not-ahead", c(0, 2, &[(0, 2, 0)]), c(0, 2, &[(0, 2, 0)])),
        ("incremental-one-entry", c(0, 3, &[(0, 2, 0), (1, 3, 0)]), c(0, 2, &[(0, 2, 0)])),
        ("incremental-empty-tail", c(2, 3, &[(0, 2, 0)]), c(0, 2, &[(0, 2, 0)])),
        ("reset-with-entry", c(3, 4, &[(0, 4, 0)]), c(0, 1, &[(0, 1, 0)])),
        ("reset-empty-tail", c(3, 3, &[]), c(0, 1, &[(0, 1, 0)])),
        ("three-entries", c(0, 3, &[(0, 1, 0), (1, 2, 1), (2, 3, 2)]), c(0, 0, &[])),
    ]
}

fn ops_of_member(ops: &[Op], x: &Id) -> Vec<Op> {
    let mut out = vec![];
    let mut inside = false;
    for op in ops {
        match op {
            Op::Node { id, .. } => {
                inside = id == x;
                if inside {
                    out.push(op.clone());
                }
            }
            _ if inside => out.push(op.clone()),
            _ => {}
        }
    }
    out
}

/// C14 with two members in the same delta: X ranges over the full sender x receiver sweep, the
/// companion Y over `companion_cases`, Y's id sorting before or after X's, every order of an
/// equal-staleness tie; whole-budget deltas (truncation is the single-member sweep's business).
pub fn two_member_sweep(vmax: u64, want: &[&str], deadline: Instant) -> Part {
    let mut part = Part::new(&format!("pair/two-members-in-one-delta(versions 0..{vmax})"));
    part.rule = format!("sender and receiver both hold copies of two members X and Y; X: every installable sender copy (versions 0..={vmax}) x every receiver frontier with two contents; Y: one of 6 companion situations (not ahead, incremental with an entry, incremental with an empty tail, reset with an entry, reset with an empty tail, three stale entries); Y's id before / after X's; every scripted order of an equal-staleness tie; the sender's real whole-budget delta computed from the receiver's real digest must contain, for each member, exactly the ops of the admission table, and after delivery each copy must be the table's outcome and every member the sender was ahead on must have strictly progressed; non-trivial = messages carrying deltas of both members");
    part.bounds = json!({"version_range": [0, vmax], "companions": 6, "id_orders": 2});
    let senders = sender_copies(vmax);
    let receivers = receiver_copies(vmax);
    let companions = companion_cases();
    part.tally.add("sender_copies", senders.len() as u64);
    part.tally.add("receiver_copies", receivers.len() as u64);
    let capped = std::sync::atomic::AtomicBool::new(false);
    let x = member_x();
    let y_ids = [Id::v4("a-companion", 3, 20_001), Id::v4("z-companion", 3, 20_002)];
    let work: Vec<(&CopySpec, usize, usize)> = senders.iter().flat_map(|s| (0..companions.len()).flat_map(move |c| (0..2).map(move |o| (s, c, o)))).collect();
    let results: Vec<(Tally, Vec<Viol>)> = work
        .par_iter()
        .map(|(sx, ci, oi)| {
            let mut tally = Tally::default();
            let mut viols: Vec<Viol> = vec![];
            if Instant::now() > deadline {
                capped.store(true, std::sync::atomic::Ordering::Relaxed);
                return (tally, viols);
            }
            let (cname, sy, ry) = &companions[*ci];
            let y = &y_ids[*oi];
            let mut sender = Node::new(&Id::v4("s", 0, 10_001), &NodeOpts::default());
            if !install_on(&mut sender, &x, sx) || !install_on(&mut sender, y, sy) {
                tally.inc("sender_not_installable");
                return (tally, viols);
            }
            for rx in &receivers {
                let mut script = 0usize;
                loop {
                    tally.inc("cases");
                    let replay = json!({"engine":"pair","kind":"two-members","sender":spec_json(sx),"receiver":spec_json(rx),"companion":cname,"companion_id":y.node_id,"tie_order":script});
                    let mut recv = Node::new(&Id::v4("r", 0, 10_002), &NodeOpts::default());
                    if !install_on(&mut recv, &x, rx) || !install_on(&mut recv, y, ry) {
                        tally.inc("receiver_not_installable");
                        break;
                    }
                    let syn = recv.cc.verif_create_syn_message();
                    chitchat::verif::arm_choices(vec![script]);
                    let reply = guarded(|| sender.cc.verif_compute_delta(&syn, 65_506));
                    let log = chitchat::verif::disarm_choices();
                    let arity = log.first().map(|c| c.arity).unwrap_or(1);
                    if log.len() > 1 {
                        tally.inc("machinery_several_tie_groups");
                    }
                    if arity > 1 {
                        tally.inc("ties_enumerated");
                    }
                    let reply = match reply {
                        Ok(Some(m)) => m,
                        Ok(None) => break,
                        Err(p) => {
                            viols.push(Viol { prop: "C04", what: format!("sender panicked computing a delta: {p}"), sig: format!("panic:{}", short_loc(&p)), replay });
                            break;
                        }
                    };
                    let bytes = match guarded(|| real::real_encode(&reply)) {
                        Ok(b) => b,
                        Err(p) => {
                            viols.push(Viol { prop: "C14", what: format!("the sender's delta cannot be serialized (panic): {p}"), sig: format!("panic:{}", short_loc(&p)), replay });
                            break;
                        }
                    };
                    let Ok(dec) = codec::decode(&bytes) else {
                        viols.push(Viol { prop: "C08", what: "independent decoder rejects the sender's reply".into(), sig: "decode-disagreement".into(), replay });
                        break;
                    };
                    let got = dec.msg.ops().to_vec();
                    let mut both = 0;
                    let (msg, _) = real::real_decode(&bytes).expect("real decoder must accept the real encoder's output");
                    let before: Vec<CopySpec> = vec![read_copy_of(&recv, &x).unwrap(), read_copy_of(&recv, y).unwrap()];
                    if let Err(p) = guarded(|| recv.cc.verif_process_message(msg)) {
                        viols.push(Viol { prop: "C04", what: format!("receiver panicked applying an honest delta: {p}"), sig: format!("panic:{}", short_loc(&p)), replay });
                        break;
                    }
                    for (i, (id, s, r)) in [(&x, *sx, rx), (y, sy, ry)].into_iter().enumerate() {
                        let mine = ops_of_member(&got, id);
                        let want_ops = expected_ops_for(id, s, r);
                        if !mine.is_empty() {
                            both += 1;
                        }
                        if mine != want_ops {
                            viols.push(Viol {
                                prop: "C14",
                                what: format!("two members in one delta (companion {cname}): member {} sender {:?} receiver {:?}: {} ops in the delta, admission table expects {} ({})", if i == 0 { "X" } else { "Y" }, (s.gc, s.mv), (r.gc, r.mv), mine.len(), want_ops.len(), if mine.len() < want_ops.len() { "ops missing" } else { "ops differ" }),
                                sig: "two-member-delta-content".into(),
                                replay: replay.clone(),
                            });
                        }
                        let after = read_copy_of(&recv, id).unwrap();
                        let (dgc, dfrom, dents, dset) = split_member(&mine, id);
                        let want_after = if mine.is_empty() { before[i].clone() } else { admit(&before[i], dgc, dfrom, &dents, dset).0 };
                        if after != want_after {
                            viols.push(Viol { prop: "C14", what: format!("two members in one delta: copy after delivery {} differs from the admission table {}", spec_json(&after), spec_json(&want_after)), sig: "receiver-outcome".into(), replay: replay.clone() });
                        }
                        if s.mv > r.mv && (after.gc, after.mv) <= (before[i].gc, before[i].mv) {
                            viols.push(Viol {
                                prop: "C14",
                                what: format!("two members in one delta (companion {cname}): sender ahead on member {} ({:?} vs {:?}), whole budget available, yet the receiver's frontier did not progress", if i == 0 { "X" } else { "Y" }, (s.gc, s.mv), (r.gc, r.mv)),
                                sig: "ahead-but-no-progress".into(),
                                replay: replay.clone(),
                            });
                        }
                        if (after.gc, after.mv) < (before[i].gc, before[i].mv) {
                            viols.push(Viol { prop: "C04", what: "frontier decreased".into(), sig: "frontier-decreased".into(), replay: replay.clone() });
                        }
                    }
                    if both == 2 {
                        tally.inc("messages_with_both_members");
                    }
                    script += 1;
                    if script >= arity || viols.iter().filter(|v| want.contains(&v.prop)).count() > 20 {
                        break;
                    }
                }
                if viols.iter().filter(|v| want.contains(&v.prop)).count() > 20 {
                    break;
                }
            }
            (tally, viols)
        })
        .collect();
    let mut tally = Tally::default();
    let mut viols = vec![];
    for (t, v) in results {
        tally.merge(&t);
        viols.extend(v);
    }
    finish_part(&mut part, tally, viols, want);
    part.states = part.tally.get("sender_copies") * part.tally.get("receiver_copies") * 12;
    part.transitions = part.tally.get("cases");
    part.executions = part.tally.get("cases");
    part.distinct_nontrivial = part.tally.get("messages_with_both_members");
    if capped.load(std::sync::atomic::Ordering::Relaxed) {
        part.exhaustive = false;
        part.caps_hit.push("wall cap: not every sender copy was processed".into());
    }
    part.sample(json!({"sender_x": spec_json(&senders[senders.len() / 2]), "receiver_x": spec_json(&receivers[receivers.len() / 3]), "companion": "incremental-one-entry"}));
    part.require("messages_with_both_members");
    part.require("ties_enumerated");
    if part.tally.get("machinery_several_tie_groups") > 0 {
        part.notes.push("MACHINERY: more than one tie group met with two members; tie orders not fully enumerated".into());
    }
    part
}

// ------------------------------------------------------------------ several members in one message (C20)

/// The receiver knows X and Y at (gc 1, mv 2, {k1@2}); one message carries a delta for each, in
/// both orders, each delta being one of five kinds.
pub fn multi_member(want: &[&str]) -> Part {
    let mut part = Part::new("pair/multi-member-message");
    part.rule = "a receiver holding copies (gc 1, mv 2) of two members gets one crafted message with one delta per member; each delta is one of {resetting, header-only resetting, incremental, inapplicable, from the future, header-only, about a member the receiver has no copy of}; both orders; ACK and SYN-ACK framing; also three members; oracle: the catch-up callback is invoked exactly once iff some copy's watermark rose".into();
    let ids: Vec<Id> = vec![Id::v4("x", 1, 21_000), Id::v4("y", 1, 21_001), Id::v4("z", 1, 21_002)];
    // ("unknown": the delta is about a member the receiver has no copy of — in an ACK nothing makes
    // it known first —, which the receiver skips)
    let unknown = Id::v4("never-heard-of", 1, 21_009);
    let kinds = ["reset", "reset-header-only", "incremental", "inapplicable", "future", "header-only", "unknown"];
    let delta_of = |id: &Id, kind: &str| -> Vec<Op> {
        match kind {
            "reset" => vec![Op::Node { id: id.clone(), gc: 5, from: 0 }, Op::Kv { key: "k2".into(), value: "v".into(), version: 6, status: 0 }],
            "reset-header-only" => vec![Op::Node { id: id.clone(), gc: 5, from: 0 }],
            "incremental" => vec![Op::Node { id: id.clone(), gc: 1, from: 2 }, Op::Kv { key: "k2".into(), value: "v".into(), version: 3, status: 0 }],
            "inapplicable" => vec![Op::Node { id: id.clone(), gc: 5, from: 2 }, Op::Kv { key: "k2".into(), value: "v".into(), version: 6, status: 0 }],
            "future" => vec![Op::Node { id: id.clone(), gc: 1, from: 4 }, Op::Kv { key: "k2".into(), value: "v".into(), version: 5, status: 0 }],
            "unknown" => vec![Op::Node { id: Id { node_id: format!("{}-{}", unknown.node_id, id.node_id), ..unknown.clone() }, gc: 5, from: 0 }, Op::Kv { key: "k2".into(), value: "v".into(), version: 6, status: 0 }],
            _ => vec![Op::Node { id: id.clone(), gc: 1, from: 2 }],
        }
    };
    let mut viols: Vec<Viol> = vec![];
    let mut tally = Tally::default();
    let mut run = |members: &[(usize, &str)], synack: bool| {
        tally.inc("cases");
        let mut node = Node::new(&Id::v4("r", 0, 10_002), &NodeOpts::default());
        // make the members known and install (1, 2, {k1@2}) on each
        let digest: Vec<DigestEntry> = ids.iter().map(|id| DigestEntry { id: id.clone(), heartbeat: 1, gc: 0, mv: 0 }).collect();
        node.cc.verif_process_message(real::build_real(&Msg::Syn { digest, cluster_id: "c".into() }).unwrap());
        for id in &ids {
            node.cc.verif_process_message(ack(vec![Op::Node { id: id.clone(), gc: 1, from: 0 }, Op::Kv { key: "k1".into(), value: "v".into(), version: 2, status: 0 }]));
        }
        let cb0 = node.callback_count();
        let gcs_before: Vec<u64> = ids.iter().map(|id| node.cc.node_state(&real::to_real_id(id)).unwrap().last_gc_version()).collect();
        let mut ops = vec![];
        for (i, kind) in members {
            ops.extend(delta_of(&ids[*i], kind));
        }
        let msg = if synack { Msg::SynAck { digest: vec![], ops } } else { Msg::Ack { ops } };
        let replay = json!({"engine":"pair","kind":"multi","members": members.iter().map(|(i,k)| json!([i,k])).collect::<Vec<_>>(), "synack": synack});
        let rm = real::build_real(&msg).unwrap();
        if let Err(p) = guarded(|| node.cc.verif_process_message(rm)) {
            viols.push(Viol { prop: "C04", what: format!("panic: {p}"), sig: format!("panic:{}", short_loc(&p)), replay });
            return;
        }
        let resets = ids.iter().zip(gcs_before.iter()).filter(|(id, g)| node.cc.node_state(&real::to_real_id(id)).unwrap().last_gc_version() > **g).count();
        let cb = node.callback_count() - cb0;
        if resets > 0 {
            tally.inc("messages_with_reset");
        }
        if resets > 1 {
            tally.inc("messages_with_several_resets");
        }
        if cb != usize::from(resets > 0) {
            viols.push(Viol {
                prop: "C20",
                what: format!("message with member deltas {:?}: {resets} copies reset, callback invoked {cb} times", members),
                sig: if resets > 0 { "callback-missing-or-repeated" } else { "callback-spurious" }.into(),
                replay,
            });
        }
    };
    for synack in [false, true] {
        for a in kinds {
            for b in kinds {
                run(&[(0, a), (1, b)], synack);
                run(&[(1, b), (0, a)], synack);
                for c in kinds {
                    run(&[(0, a), (1, b), (2, c)], synack);
                }
            }
        }
    }
    finish_part(&mut part, tally, viols, want);
    part.states = part.tally.get("cases");
    part.transitions = part.tally.get("cases");
    part.executions = part.tally.get("cases");
    part.distinct_nontrivial = part.tally.get("messages_with_reset");
    part.sample(json!({"members": [["x","reset"],["y","incremental"]], "framing": "ack"}));
    part.require("messages_with_several_resets");
    part
}

pub fn run(property: &'static str, tier: Tier, started: Instant) -> Vec<Part> {
    let want = [property];
    let d = |s: u64| started + std::time::Duration::from_secs(s);
    match property {
        "C14" => vec![honest_sweep(tier.pick(5, 7), &want, d(tier.pick(45, 1800))), two_member_sweep(tier.pick(3, 5), &want, d(tier.pick(55, 3000)))],
        "C04" => vec![arbitrary_sweep(tier.pick(5, 6), &want, d(tier.pick(50, 1800))), honest_sweep(tier.pick(4, 6), &want, d(tier.pick(55, 2400)))],
        "C20" => vec![multi_member(&want), arbitrary_sweep(tier.pick(4, 6), &want, d(tier.pick(50, 1800))), honest_sweep(tier.pick(4, 6), &want, d(tier.pick(55, 2400)))],
        "C07" => vec![honest_sweep(tier.pick(4, 6), &want, d(tier.pick(50, 1800)))],
        _ => vec![],
    }
}

pub fn replay(v: &Value) -> Result<(), String> {
    let mut tally = Tally::default();
    let mut viols = vec![];
    match v["kind"].as_str().unwrap_or("") {
        "honest" => {
            let s = spec_from_json(&v["sender"]).ok_or("bad sender")?;
            let r = spec_from_json(&v["receiver"]).ok_or("bad receiver")?;
            let sender = install("s", 10_001, &s).ok_or("sender copy not installable")?;
            check_pair(&sender, &s, &r, &mut tally, &mut viols);
        }
        "two-members" => {
            let p = two_member_sweep(3, &["C14", "C04", "C08"], Instant::now() + std::time::Duration::from_secs(600));
            for x in &p.violations {
                println!("!! {} [{}] {}", x.property, x.signature, x.what);
            }
            return if p.violations.is_empty() { Ok(()) } else { Err("two-member family fails".into()) };
        }
        "arbitrary" => {
            let r = spec_from_json(&v["receiver"]).ok_or("bad receiver")?;
            let d = DeltaSpec {
                gc: v["delta"]["gc"].as_u64().unwrap_or(0),
                from: v["delta"]["from"].as_u64().unwrap_or(0),
                set_max: v["delta"]["set_max"].as_u64(),
                entries: spec_from_json(&json!({"gc":0,"mv":0,"entries":v["delta"]["entries"]})).map(|c| c.entries).unwrap_or_default(),
            };
            check_arbitrary(&r, &d, v["synack"].as_bool().unwrap_or(false), &mut tally, &mut viols);
        }
        _ => {
            let p = multi_member(&["C20", "C04"]);
            for x in &p.violations {
                println!("!! {} [{}] {}", x.property, x.signature, x.what);
            }
            return if p.violations.is_empty() { Ok(()) } else { Err("multi-member family fails".into()) };
        }
    }
    for x in &viols {
        println!("!! {} [{}] {}", x.prop, x.sig, x.what);
    }
    println!("cases executed: {}", tally.get("cases"));
    match viols.first() {
        Some(x) => Err(format!("{} {}", x.prop, x.what)),
        None => Ok(()),
    }
}
