//! `server` — the real gossip loop (`spawn_chitchat`) under a scripted in-process transport (C19).

use std::collections::VecDeque;
use std::future::Future;
use std::net::SocketAddr;
use std::pin::Pin;
use std::sync::atomic::{AtomicBool, AtomicU64, Ordering};
use std::sync::{Arc, Mutex};
use std::task::{Poll, Waker};
use std::time::{Duration, Instant};

use async_trait::async_trait;
use chitchat::transport::{Socket, Transport};
use chitchat::{spawn_chitchat, ChitchatConfig, ChitchatHandle, ChitchatMessage, FailureDetectorConfig};
use rayon::prelude::*;
use serde_json::{json, Value};

use crate::codec::{DigestEntry, Id, Msg, Op};
use crate::real::{self, Meaning};
use crate::report::{Part, Tier};
use crate::util::{guarded, Tally};

const YIELD_BOUND: usize = 200;
const GOSSIP_INTERVAL: Duration = Duration::from_secs(1);

#[derive(Clone, Copy, Debug, PartialEq, Eq)]
pub enum SendAnswer {
    Ok,
    Err,
    Block,
}

enum RecvItem {
    Msg(SocketAddr, ChitchatMessage),
    Fatal,
}

#[derive(Default)]
struct Shared {
    inbox: Mutex<VecDeque<RecvItem>>,
    recv_waker: Mutex<Option<Waker>>,
    send_answers: Mutex<VecDeque<SendAnswer>>,
    /// (destination, kind of message, answered ok?)
    sent: Mutex<Vec<(SocketAddr, &'static str, bool)>>,
    recv_polls: AtomicU64,
    blocked_in_send: AtomicBool,
    release_send: AtomicBool,
    send_waker: Mutex<Option<Waker>>,
    /// inbound flood: while positive, `recv` is always ready with one more valid SYN
    flood_left: AtomicU64,
}

struct ScriptedTransport {
    shared: Arc<Shared>,
}

struct ScriptedSocket {
    shared: Arc<Shared>,
}

#[async_trait]
impl Transport for ScriptedTransport {
    async fn open(&self, _listen_addr: SocketAddr) -> anyhow::Result<Box<dyn Socket>> {
        Ok(Box::new(ScriptedSocket { shared: self.shared.clone() }))
    }
}

#[async_trait]
impl Socket for ScriptedSocket {
    async fn send(&mut self, to: SocketAddr, msg: ChitchatMessage) -> anyhow::Result<()> {
        let kind = real::meaning_of_real(&msg).kind();
        let answer = self.shared.send_answers.lock().unwrap().pop_front().unwrap_or(SendAnswer::Ok);
        match answer {
            SendAnswer::Ok => {
                self.shared.sent.lock().unwrap().push((to, kind, true));
                Ok(())
            }
            SendAnswer::Err => {
                self.shared.sent.lock().unwrap().push((to, kind, false));
                anyhow::bail!("scripted send error (e.g. EMSGSIZE)")
            }
            SendAnswer::Block => {
                let shared = self.shared.clone();
                shared.blocked_in_send.store(true, Ordering::SeqCst);
                std::future::poll_fn(|cx| {
                    if shared.release_send.load(Ordering::SeqCst) {
                        Poll::Ready(())
                    } else {
                        *shared.send_waker.lock().unwrap() = Some(cx.waker().clone());
                        Poll::Pending
                    }
                })
                .await;
                shared.blocked_in_send.store(false, Ordering::SeqCst);
                shared.release_send.store(false, Ordering::SeqCst);
                self.shared.sent.lock().unwrap().push((to, kind, true));
                Ok(())
            }
        }
    }

    async fn recv(&mut self) -> anyhow::Result<(SocketAddr, ChitchatMessage)> {
        let shared = self.shared.clone();
        std::future::poll_fn(move |cx| {
            let mut inbox = shared.inbox.lock().unwrap();
            match inbox.pop_front() {
                Some(RecvItem::Msg(from, m)) => Poll::Ready(Ok((from, m))),
                Some(RecvItem::Fatal) => Poll::Ready(Err(anyhow::anyhow!("scripted fatal recv error"))),
                None if shared.flood_left.load(Ordering::SeqCst) > 0 => {
                    let n = shared.flood_left.fetch_sub(1, Ordering::SeqCst);
                    let m = real::build_real(&Msg::Syn { digest: vec![DigestEntry { id: peer_id(), heartbeat: 1_000_000 - n, gc: 0, mv: 0 }], cluster_id: "c".into() }).unwrap();
                    Poll::Ready(Ok((peer_id().addr, m)))
                }
                None => {
                    shared.recv_polls.fetch_add(1, Ordering::SeqCst);
                    *shared.recv_waker.lock().unwrap() = Some(cx.waker().clone());
                    Poll::Pending
                }
            }
        })
        .await
    }
}

#[derive(Clone, Copy, Debug, PartialEq, Eq, Hash, PartialOrd, Ord)]
pub enum Ev {
    NextSendOk,
    NextSendErr,
    NextSendBlocks,
    RecvSyn,
    RecvSynAck,
    RecvAck,
    RecvForeignSyn,
    RecvFatal,
    Delay,
    UserLock,
    UserGossip,
    Shutdown,
    RecvPanicking,
}

pub const ALPHABET: [Ev; 13] = [
    Ev::NextSendOk,
    Ev::NextSendErr,
    Ev::NextSendBlocks,
    Ev::RecvSyn,
    Ev::RecvSynAck,
    Ev::RecvAck,
    Ev::RecvForeignSyn,
    Ev::RecvFatal,
    Ev::Delay,
    Ev::UserLock,
    Ev::UserGossip,
    Ev::Shutdown,
    Ev::RecvPanicking,
];

impl Ev {
    pub fn name(self) -> &'static str {
        match self {
            Ev::NextSendOk => "next-send-ok",
            Ev::NextSendErr => "next-send-error",
            Ev::NextSendBlocks => "next-send-blocks",
            Ev::RecvSyn => "recv-syn",
            Ev::RecvSynAck => "recv-synack",
            Ev::RecvAck => "recv-ack",
            Ev::RecvForeignSyn => "recv-foreign-cluster-syn",
            Ev::RecvFatal => "recv-fatal-error",
            Ev::Delay => "delay-one-gossip-interval",
            Ev::UserLock => "user-takes-the-lock",
            Ev::UserGossip => "user-gossip-command",
            Ev::Shutdown => "shutdown-request",
            Ev::RecvPanicking => "recv-message-whose-processing-panics",
        }
    }
    pub fn from_name(s: &str) -> Option<Ev> {
        ALPHABET.iter().copied().find(|e| e.name() == s)
    }
}

fn server_id() -> Id {
    Id::v4("srv", 1, 10_001)
}
fn peer_id() -> Id {
    Id::v4("peer", 1, 10_002)
}
fn victim_id() -> Id {
    Id::v4("victim", 1, 10_003)
}
/// The configured seed: an address that is neither the peer's nor the victim's, so that every round
/// has to contact it in addition to the known peers (one seed, at most two known members: the
/// selection function then picks the seed whatever the generator says).
fn seed_addr() -> SocketAddr {
    SocketAddr::from(([127, 0, 0, 1], 10_004))
}

async fn poll_once<F: Future + Unpin>(f: &mut F) -> Poll<F::Output> {
    std::future::poll_fn(|cx| Poll::Ready(Pin::new(&mut *f).poll(cx))).await
}

/// Polls `fut` with yields in between, at most `YIELD_BOUND` times.
async fn bounded<T>(fut: impl Future<Output = T>) -> Option<T> {
    let mut fut = Box::pin(fut);
    for _ in 0..YIELD_BOUND {
        if let Poll::Ready(v) = poll_once(&mut fut).await {
            return Some(v);
        }
        tokio::task::yield_now().await;
    }
    None
}

#[derive(Clone, Copy, Debug, PartialEq, Eq)]
enum Ended {
    No,
    Fatal,
    Panicked,
    Shutdown,
}

struct Driver {
    shared: Arc<Shared>,
    handle: Option<ChitchatHandle>,
    ended: Ended,
    peer_hb: u64,
}

type V = (String, String);

impl Driver {
    async fn new() -> Driver {
        let shared = Arc::new(Shared::default());
        let transport = ScriptedTransport { shared: shared.clone() };
        let id = real::to_real_id(&server_id());
        let config = ChitchatConfig {
            chitchat_id: id,
            cluster_id: "c".into(),
            gossip_interval: GOSSIP_INTERVAL,
            listen_addr: server_id().addr,
            seed_nodes: vec![seed_addr().to_string()],
            failure_detector_config: FailureDetectorConfig::default(),
            marked_for_deletion_grace_period: Duration::from_secs(3600),
            catchup_callback: Some(Box::new(|| panic!("catch-up callback panics (scripted)"))),
            extra_liveness_predicate: None,
        };
        let handle = spawn_chitchat(config, vec![("k".into(), "v".into())], &transport).await.expect("spawn");
        let mut d = Driver { shared, handle: Some(handle), ended: Ended::No, peer_hb: 0 };
        d.settle().await;
        d
    }

    /// Yields until the server task has nothing more to do (activity counters stable).
    async fn settle(&mut self) -> bool {
        let mut stable = 0;
        let mut last = (u64::MAX, usize::MAX);
        for _ in 0..YIELD_BOUND {
            tokio::task::yield_now().await;
            let now = (self.shared.recv_polls.load(Ordering::SeqCst), self.shared.sent.lock().unwrap().len());
            if now == last {
                stable += 1;
                if stable >= 4 {
                    return true;
                }
            } else {
                stable = 0;
                last = now;
            }
        }
        false
    }

    /// Wakes the receive side (used after arming the flood).
    fn push_wake(&self) {
        if let Some(w) = self.shared.recv_waker.lock().unwrap().take() {
            w.wake();
        }
    }

    fn push(&self, item: RecvItem) {
        self.shared.inbox.lock().unwrap().push_back(item);
        if let Some(w) = self.shared.recv_waker.lock().unwrap().take() {
            w.wake();
        }
    }

    fn msg(&mut self, ev: Ev) -> ChitchatMessage {
        self.peer_hb += 1;
        let peer = DigestEntry { id: peer_id(), heartbeat: self.peer_hb, gc: 0, mv: 0 };
        let m = match ev {
            Ev::RecvSyn => Msg::Syn { digest: vec![peer], cluster_id: "c".into() },
            Ev::RecvForeignSyn => Msg::Syn { digest: vec![peer], cluster_id: "other".into() },
            Ev::RecvSynAck => Msg::SynAck { digest: vec![peer], ops: vec![] },
            Ev::RecvAck => Msg::Ack { ops: vec![Op::Node { id: peer_id(), gc: 0, from: 0 }, Op::SetMax(self.peer_hb)] },
            // a resetting delta for a member the server knows: triggers the catch-up callback
            _ => Msg::SynAck { digest: vec![DigestEntry { id: victim_id(), heartbeat: self.peer_hb, gc: 0, mv: 0 }], ops: vec![Op::Node { id: victim_id(), gc: 5 + self.peer_hb, from: 0 }] },
        };
        real::build_real(&m).unwrap()
    }

    fn sent_len(&self) -> usize {
        self.shared.sent.lock().unwrap().len()
    }

    /// SYN attempts (successful or not) towards the seed since log position `from`.
    fn seed_syns_since(&self, from: usize) -> usize {
        self.shared.sent.lock().unwrap()[from..].iter().filter(|(to, k, _)| *to == seed_addr() && *k == "syn").count()
    }

    async fn own_heartbeat(&self) -> Option<u64> {
        let h = self.handle.as_ref()?;
        let cc = h.chitchat();
        let g = bounded(cc.lock()).await?;
        let id = real::to_real_id(&server_id());
        g.node_state(&id).map(|ns| ns.heartbeat().into())
    }

    async fn release_blocked_send(&mut self) {
        // several sends in a row may have been scripted to block
        for _ in 0..16 {
            if !self.shared.blocked_in_send.load(Ordering::SeqCst) {
                return;
            }
            self.shared.release_send.store(true, Ordering::SeqCst);
            if let Some(w) = self.shared.send_waker.lock().unwrap().take() {
                w.wake();
            }
            self.settle().await;
        }
    }

    async fn watcher_state(&self) -> Option<Result<(), String>> {
        let h = self.handle.as_ref()?;
        let mut w = Box::pin(h.termination_watcher());
        // the watcher future needs a couple of polls to observe the channel
        for _ in 0..8 {
            if let Poll::Ready(r) = poll_once(&mut w).await {
                return Some(r.map_err(|e| e.to_string()));
            }
            tokio::task::yield_now().await;
        }
        None
    }

    async fn apply(&mut self, ev: Ev, t: &mut Tally) -> Result<(), V> {
        // a blocked send is only kept blocked across user-lock and send-answer events (that is what
        // it is for); anything that needs the server's attention releases it first
        if !matches!(ev, Ev::UserLock | Ev::NextSendOk | Ev::NextSendErr | Ev::NextSendBlocks) {
            self.release_blocked_send().await;
        }
        let blocked = self.shared.blocked_in_send.load(Ordering::SeqCst);
        match ev {
            Ev::NextSendOk => self.shared.send_answers.lock().unwrap().push_back(SendAnswer::Ok),
            Ev::NextSendErr => self.shared.send_answers.lock().unwrap().push_back(SendAnswer::Err),
            Ev::NextSendBlocks => self.shared.send_answers.lock().unwrap().push_back(SendAnswer::Block),
            Ev::RecvSyn | Ev::RecvSynAck | Ev::RecvAck | Ev::RecvForeignSyn | Ev::RecvPanicking => {
                let m = self.msg(ev);
                let before = self.sent_len();
                self.push(RecvItem::Msg(peer_id().addr, m));
                self.settle().await;
                if self.ended == Ended::No && !blocked {
                    if ev == Ev::RecvPanicking {
                        self.ended = Ended::Panicked;
                        t.inc("panics_injected");
                    } else if !self.shared.blocked_in_send.load(Ordering::SeqCst) {
                        // every SYN / SYN-ACK must have produced a send attempt
                        let expect_reply = matches!(ev, Ev::RecvSyn | Ev::RecvSynAck | Ev::RecvForeignSyn);
                        if expect_reply && self.sent_len() == before {
                            return Err((format!("a valid {} got no reply attempt", ev.name()), "no-reply".into()));
                        }
                        if expect_reply {
                            t.inc("replies_observed");
                        }
                    }
                }
            }
            Ev::RecvFatal => {
                self.push(RecvItem::Fatal);
                self.settle().await;
                if self.ended == Ended::No && !blocked {
                    self.ended = Ended::Fatal;
                    t.inc("fatal_errors_injected");
                }
            }
            Ev::Delay => {
                let hb0 = if self.ended == Ended::No && !blocked { self.own_heartbeat().await } else { None };
                let before = self.sent_len();
                tokio::time::advance(GOSSIP_INTERVAL).await;
                self.settle().await;
                if self.ended == Ended::No && !blocked && !self.shared.blocked_in_send.load(Ordering::SeqCst) {
                    let hb1 = self.own_heartbeat().await;
                    if let (Some(a), Some(b)) = (hb0, hb1) {
                        if b <= a {
                            return Err((format!("a gossip interval elapsed but the node's heartbeat stayed at {a}"), "round-stalled".into()));
                        }
                    } else {
                        return Err(("the state lock was not granted around a gossip round".into(), "lock-stalled".into()));
                    }
                    if self.sent_len() == before {
                        return Err(("a gossip interval elapsed but no SYN was attempted (a seed is configured)".into(), "round-without-syn".into()));
                    }
                    if self.seed_syns_since(before) == 0 {
                        return Err(("a gossip round did not try to contact the seed (one seed, no other seed among the targets)".into(), "round-skipped-the-seed".into()));
                    }
                    t.inc("rounds_observed");
                }
            }
            Ev::UserLock => {
                if let Some(h) = &self.handle {
                    let cc = h.chitchat();
                    let got = bounded(cc.lock()).await;
                    match got {
                        Some(mut g) => {
                            g.self_node_state().set("user", "touch");
                            t.inc("user_locks_granted");
                            if blocked {
                                t.inc("user_locks_granted_while_a_send_is_blocked");
                            }
                        }
                        None => return Err((format!("user access to the shared state was not granted within {YIELD_BOUND} yields{}", if blocked { " (a send is blocked)" } else { "" }), "lock-stalled".into())),
                    };
                }
            }
            Ev::UserGossip => {
                if let Some(h) = &self.handle {
                    let before = self.sent_len();
                    let r = h.gossip(peer_id().addr);
                    self.settle().await;
                    if self.ended == Ended::No && !blocked && !self.shared.blocked_in_send.load(Ordering::SeqCst) {
                        if r.is_err() || self.sent_len() == before {
                            return Err(("a user gossip command produced no SYN attempt".into(), "command-ignored".into()));
                        }
                    }
                }
            }
            Ev::Shutdown => {
                self.release_blocked_send().await;
                if let Some(h) = self.handle.take() {
                    let was = self.ended;
                    let r = bounded(h.shutdown()).await;
                    match r {
                        None => return Err((format!("shutdown did not complete within {YIELD_BOUND} yields"), "shutdown-stalled".into())),
                        Some(res) => {
                            t.inc("shutdowns_completed");
                            if was == Ended::No && res.is_err() {
                                return Err((format!("graceful shutdown returned an error: {:?}", res.err().map(|e| e.to_string())), "shutdown-error".into()));
                            }
                        }
                    }
                    self.ended = Ended::Shutdown;
                }
            }
        }
        Ok(())
    }

    /// Closing probes: what must hold after the script, given how (and whether) the loop ended.
    async fn probe(&mut self, t: &mut Tally) -> Result<(), V> {
        self.shared.send_answers.lock().unwrap().clear();
        self.release_blocked_send().await;
        match self.ended {
            Ended::No => {
                if let Some(r) = self.watcher_state().await {
                    return Err((format!("the termination watcher resolved ({r:?}) although nothing fatal happened"), "loop-terminated".into()));
                }
                // still answering
                let before = self.sent_len();
                let m = self.msg(Ev::RecvSyn);
                self.push(RecvItem::Msg(peer_id().addr, m));
                self.settle().await;
                let answered = self.shared.sent.lock().unwrap()[before..].iter().any(|(_, k, _)| *k == "synack");
                if !answered {
                    return Err(("after the script a valid SYN is no longer answered with a SYN-ACK".into(), "no-reply".into()));
                }
                // still heartbeating
                let hb0 = self.own_heartbeat().await;
                let before = self.sent_len();
                tokio::time::advance(GOSSIP_INTERVAL).await;
                self.settle().await;
                let hb1 = self.own_heartbeat().await;
                match (hb0, hb1) {
                    (Some(a), Some(b)) if b > a => {}
                    (Some(a), Some(b)) => return Err((format!("after the script a gossip interval no longer raises the heartbeat ({a} -> {b})"), "round-stalled".into())),
                    _ => return Err(("after the script the state lock is not granted".into(), "lock-stalled".into())),
                }
                let syns = self.shared.sent.lock().unwrap()[before..].iter().filter(|(_, k, _)| *k == "syn").count();
                if syns == 0 {
                    return Err(("after the script a gossip round sends no SYN".into(), "round-without-syn".into()));
                }
                if self.seed_syns_since(before) == 0 {
                    return Err(("after the script a gossip round does not contact the seed".into(), "round-skipped-the-seed".into()));
                }
                t.inc("live_probes_passed");
                // and a shutdown completes — requested right behind a user gossip command, without
                // letting the loop run in between (both commands are queued when it next looks)
                if let Some(h) = self.handle.take() {
                    let _ = h.gossip(peer_id().addr);
                    t.inc("shutdowns_queued_behind_a_gossip_command");
                    match bounded(h.shutdown()).await {
                        Some(Ok(())) => t.inc("shutdowns_completed"),
                        Some(Err(e)) => return Err((format!("graceful shutdown returned an error: {e}"), "shutdown-error".into())),
                        None => return Err(("shutdown did not complete".into(), "shutdown-stalled".into())),
                    }
                }
            }
            Ended::Fatal | Ended::Panicked => {
                let r = self.watcher_state().await;
                match r {
                    Some(Err(_)) => t.inc("terminations_reported"),
                    other => {
                        return Err((format!("the loop ended ({:?}) but the termination watcher says {other:?}", self.ended), "termination-not-reported".into()));
                    }
                }
                // nothing is sent afterwards
                let before = self.sent_len();
                let m = self.msg(Ev::RecvSyn);
                self.push(RecvItem::Msg(peer_id().addr, m));
                tokio::time::advance(GOSSIP_INTERVAL).await;
                self.settle().await;
                if self.sent_len() != before {
                    return Err(("messages were sent after the loop had ended".into(), "sent-after-termination".into()));
                }
            }
            Ended::Shutdown => {}
        }
        if let Some(h) = self.handle.take() {
            h.abort();
        }
        tokio::task::yield_now().await;
        Ok(())
    }
}

/// Runs one script on a fresh server. Returns the violation, if any.
pub fn run_script(script: &[Ev], t: &mut Tally) -> Option<V> {
    let script = script.to_vec();
    let mut local = Tally::default();
    let r = guarded(|| {
        crate::clock::block_on(async {
            let mut d = Driver::new().await;
            for ev in &script {
                if let Err(v) = d.apply(*ev, &mut local).await {
                    if let Some(h) = d.handle.take() {
                        h.abort();
                    }
                    return Some(v);
                }
            }
            d.probe(&mut local).await.err()
        })
    });
    t.merge(&local);
    match r {
        Ok(v) => v,
        Err(p) => Some((format!("driver panicked: {p}"), "machinery-panic".into())),
    }
}

pub fn run(tier: Tier, started: Instant) -> Vec<Part> {
    let depth = tier.pick(5usize, 7usize);
    let mut v = vec![scripts("C19", depth, tier, started)];
    v.push(decode_on_receive_path(tier));
    v.push(udp_send_faults(tier.pick(3, 4)));
    v.push(udp_recv_sequences("C19", tier.pick(2, 3)));
    v.push(fairness_under_flood());
    v.push(udp_smoke());
    v
}

// ------------------------------------------------------------------ round targets on the real loop (C17)

#[derive(Clone, Copy, Debug, PartialEq, Eq)]
enum SeedKind {
    None,
    Unknown,
    Ready,
    NotReady,
    Dead,
    /// the node listens on 0.0.0.0 and advertises another address; its seed list is the shared one:
    /// its own advertised address and an unknown address
    SelfAndUnknown,
}

#[derive(Clone, Copy, Debug)]
struct RoundCfg {
    /// the dead peers have been dead for more than half of a (finite) dead-node grace period: they are
    /// scheduled for deletion, but still members of the dead set
    old_dead: bool,
    predicate: bool,
    ready: usize,
    not_ready: usize,
    dead: usize,
    seed: SeedKind,
}

fn rt_member(kind: usize, i: usize) -> Id {
    let names = ["ready", "notready", "dead"];
    Id::v4(&format!("{}{}", names[kind], i), 1, 11_000 + (kind as u16) * 100 + i as u16)
}

fn round_cfg_json(c: &RoundCfg) -> Value {
    json!({"engine":"server","kind":"round-targets","old_dead":c.old_dead,"predicate":c.predicate,"ready":c.ready,"not_ready":c.not_ready,"dead":c.dead,"seed":format!("{:?}", c.seed)})
}

/// Is the list of SYN destinations of one round explainable as: at most three distinct peers from
/// the pool, at most one from the dead set, at most one from the seed set?
fn decomposable(targets: &[SocketAddr], pool: &std::collections::BTreeSet<SocketAddr>, dead: &std::collections::BTreeSet<SocketAddr>, seeds: &std::collections::BTreeSet<SocketAddr>) -> bool {
    let n = targets.len();
    // index n = "slot not used"
    for d in 0..=n {
        if d < n && !dead.contains(&targets[d]) {
            continue;
        }
        for sd in 0..=n {
            if sd < n && (sd == d || !seeds.contains(&targets[sd])) {
                continue;
            }
            let rest: Vec<&SocketAddr> = targets.iter().enumerate().filter(|(i, _)| *i != d && *i != sd).map(|(_, a)| a).collect();
            let distinct: std::collections::BTreeSet<&&SocketAddr> = rest.iter().collect();
            if rest.len() <= 3 && distinct.len() == rest.len() && rest.iter().all(|a| pool.contains(a)) {
                return true;
            }
        }
    }
    false
}

async fn round_targets_case(c: RoundCfg, rounds: usize, t: &mut Tally) -> Result<(), V> {
    use std::collections::BTreeSet;
    let shared = Arc::new(Shared::default());
    let transport = ScriptedTransport { shared: shared.clone() };
    let ready: Vec<Id> = (0..c.ready).map(|i| rt_member(0, i)).collect();
    let not_ready: Vec<Id> = (0..c.not_ready).map(|i| rt_member(1, i)).collect();
    let dead: Vec<Id> = (0..c.dead).map(|i| rt_member(2, i)).collect();
    let seed: Option<SocketAddr> = match c.seed {
        SeedKind::None => None,
        SeedKind::Unknown | SeedKind::SelfAndUnknown => Some(seed_addr()),
        SeedKind::Ready => ready.first().map(|i| i.addr),
        SeedKind::NotReady => not_ready.first().map(|i| i.addr),
        SeedKind::Dead => dead.first().map(|i| i.addr),
    };
    let config = ChitchatConfig {
        chitchat_id: real::to_real_id(&server_id()),
        cluster_id: "c".into(),
        gossip_interval: GOSSIP_INTERVAL,
        listen_addr: if c.seed == SeedKind::SelfAndUnknown { SocketAddr::from(([0, 0, 0, 0], server_id().addr.port())) } else { server_id().addr },
        seed_nodes: seed.iter().map(|a| a.to_string()).chain((c.seed == SeedKind::SelfAndUnknown).then(|| server_id().addr.to_string())).collect(),
        failure_detector_config: if c.old_dead { FailureDetectorConfig { dead_node_grace_period: Duration::from_secs(60), ..FailureDetectorConfig::default() } } else { FailureDetectorConfig::default() },
        marked_for_deletion_grace_period: Duration::from_secs(3600),
        catchup_callback: None,
        extra_liveness_predicate: if c.predicate { Some(Box::new(|ns| ns.get("READY") == Some("true"))) } else { None },
    };
    let handle = spawn_chitchat(config, vec![("k".into(), "v".into())], &transport).await.expect("spawn");
    let mut d = Driver { shared: shared.clone(), handle: Some(handle), ended: Ended::No, peer_hb: 0 };
    d.settle().await;
    let src = SocketAddr::from(([127, 0, 0, 1], 10_900));
    // warm-up: four heartbeats one second apart for the live members, a single one for the dead
    // (`old_dead`: 35 of them, so that the dead peers are past half of the 60 s grace period)
    for hb in 1..=(if c.old_dead { 35u64 } else { 4u64 }) {
        let mut digest: Vec<DigestEntry> = ready.iter().chain(not_ready.iter()).map(|id| DigestEntry { id: id.clone(), heartbeat: hb, gc: 0, mv: 0 }).collect();
        if hb == 1 {
            digest.extend(dead.iter().map(|id| DigestEntry { id: id.clone(), heartbeat: 1, gc: 0, mv: 0 }));
        }
        d.push(RecvItem::Msg(src, real::build_real(&Msg::Syn { digest, cluster_id: "c".into() }).unwrap()));
        d.settle().await;
        if hb == 1 {
            for id in &ready {
                let ops = vec![Op::Node { id: id.clone(), gc: 0, from: 0 }, Op::Kv { key: "READY".into(), value: "true".into(), version: 1, status: 0 }];
                d.push(RecvItem::Msg(src, real::build_real(&Msg::Ack { ops }).unwrap()));
            }
            d.settle().await;
        }
        tokio::time::advance(GOSSIP_INTERVAL).await;
        d.settle().await;
    }
    for round in 0..rounds {
        // the sets the round is entitled to use
        let (peers, live, deadset, watcher): (BTreeSet<SocketAddr>, BTreeSet<SocketAddr>, BTreeSet<SocketAddr>, usize) = {
            let h = d.handle.as_ref().unwrap();
            let cc = h.chitchat();
            let Some(g) = bounded(cc.lock()).await else { return Err(("state lock not granted".into(), "lock-stalled".into())) };
            let me = g.self_chitchat_id().clone();
            let peers = g.node_states().keys().filter(|i| **i != me).map(|i| i.gossip_advertise_addr).collect();
            let live = g.live_nodes().filter(|i| **i != me).map(|i| i.gossip_advertise_addr).collect();
            let deadset = g.dead_nodes().map(|i| i.gossip_advertise_addr).collect();
            let w = g.live_nodes_watcher().borrow().keys().filter(|i| **i != me).count();
            if round == 0 && c.old_dead && c.dead > 0 {
                if g.scheduled_for_deletion_nodes().count() == c.dead {
                    t.inc("cases_with_dead_peers_scheduled_for_deletion");
                } else {
                    t.inc("setup_mismatch");
                }
            }
            (peers, live, deadset, w)
        };
        if round == 0 {
            // the set-up must have produced the intended membership, otherwise the case is vacuous
            if live.len() != c.ready + c.not_ready || deadset.len() != c.dead {
                t.inc("setup_mismatch");
                return Ok(());
            }
            let expect_w = if c.predicate { c.ready } else { c.ready + c.not_ready };
            if watcher != expect_w {
                t.inc("setup_mismatch");
                return Ok(());
            }
            if c.predicate && c.not_ready > 0 {
                t.inc("cases_with_live_peers_hidden_by_the_predicate");
            }
        }
        let seeds: BTreeSet<SocketAddr> = seed.iter().copied().collect();
        let before = d.sent_len();
        tokio::time::advance(GOSSIP_INTERVAL).await;
        d.settle().await;
        let targets: Vec<SocketAddr> = shared.sent.lock().unwrap()[before..].iter().filter(|(_, k, _)| *k == "syn").map(|(a, _, _)| *a).collect();
        t.inc("rounds_observed");
        if targets.contains(&server_id().addr) {
            return Err((format!("round {} sent a SYN to the node's own advertised address", round + 1), "round-targets-self".into()));
        }
        if c.seed == SeedKind::SelfAndUnknown {
            t.inc("rounds_with_own_address_in_the_seed_list");
        }
        let pool = if live.is_empty() { &peers } else { &live };
        if !decomposable(&targets, pool, &deadset, &seeds) {
            let dead_hit = targets.iter().filter(|a| deadset.contains(a)).count();
            return Err((
                format!("round {} contacted {:?}: not (at most 3 distinct of the {} {} peers) + (at most 1 of the {} dead) + (at most 1 seed); {} dead peers contacted", round + 1, targets.iter().map(|a| a.port()).collect::<Vec<_>>(), pool.len(), if live.is_empty() { "known" } else { "live" }, deadset.len(), dead_hit),
                "round-targets-outside-the-allowed-sets".into(),
            ));
        }
        if live.is_empty() && !seeds.is_empty() && !targets.iter().any(|a| seeds.contains(a)) {
            return Err(("no live peer is known and a seed is configured, yet the round contacted no seed".into(), "round-skipped-the-seed".into()));
        }
        if deadset.len() > live.len() && !targets.iter().any(|a| deadset.contains(a)) {
            return Err((format!("{} dead peers outnumber {} live ones, yet the round contacted no dead peer", deadset.len(), live.len()), "round-skipped-the-dead".into()));
        }
        // (the statement says "at most three": fewer is allowed; but a round that knows live peers and
        // contacts none of them does not gossip at all)
        if !live.is_empty() && !targets.iter().any(|a| live.contains(a)) {
            return Err((format!("{} live peers are known but the round contacted none of them", live.len()), "round-skipped-live-peers".into()));
        }
    }
    if let Some(h) = d.handle.take() {
        h.abort();
    }
    tokio::task::yield_now().await;
    Ok(())
}

/// C17 on the real server loop: which sets the round hands to the selection function.
pub fn round_targets(tier: Tier) -> Part {
    let mut part = Part::new("server/round-targets");
    let rounds = tier.pick(3usize, 12usize);
    part.rule = format!("the real gossip server over the scripted transport, with and without an extra liveness predicate (READY == true); membership built through real messages: 0..2 live peers satisfying the predicate, 0..2 live peers not satisfying it, 0..{} dead peers (one heartbeat only); seed: none / an unknown address / a ready peer / a not-ready peer / a dead peer / the shared list (own advertised address + unknown address) on a node that listens on 0.0.0.0 (listen address != advertised address; no SYN may go to the node itself and the real seed must be contacted when no peer is live); also with a 60 s dead-node grace period and dead peers that have been dead for more than half of it (scheduled for deletion, still in the dead set); {rounds} consecutive rounds observed per configuration; oracle, evaluated on the SYN destinations of each round against Chitchat::live_nodes() / dead_nodes() / known members read under the lock just before the round: the destinations split into at most 3 distinct peers of the pool (live peers, or all known peers when none is live) + at most one dead peer + at most one seed; a seed is contacted when no live peer is known; a dead peer is contacted when dead outnumber live; at least one live peer is contacted when one is known. The server's own random generator is not scripted here (the `select` engine enumerates the generator's answers on the selection function itself): the oracle holds for every draw, and a wrong pool is exposed deterministically by the configurations in which it forces a destination outside the allowed sets; non-trivial = configurations with live peers hidden by the predicate", tier.pick(4, 5));
    let dmax = tier.pick(4usize, 5usize);
    let mut cfgs = vec![];
    for (predicate, old_dead) in [(false, false), (true, false), (false, true)] {
        for ready in 0..=2 {
            for not_ready in 0..=2 {
                if old_dead && not_ready > 0 {
                    continue;
                }
                for dead in 0..=dmax {
                    for seed in [SeedKind::None, SeedKind::Unknown, SeedKind::Ready, SeedKind::NotReady, SeedKind::Dead, SeedKind::SelfAndUnknown] {
                        let exists = match seed {
                            SeedKind::Ready => ready > 0,
                            SeedKind::NotReady => not_ready > 0,
                            SeedKind::Dead => dead > 0,
                            _ => true,
                        };
                        if exists {
                            cfgs.push(RoundCfg { old_dead, predicate, ready, not_ready, dead, seed });
                        }
                    }
                }
            }
        }
    }
    part.bounds = json!({"configurations": cfgs.len(), "rounds_per_configuration": rounds});
    let results: Vec<(Tally, Option<(V, RoundCfg)>)> = cfgs
        .par_iter()
        .map(|c| {
            let mut t = Tally::default();
            t.inc("configurations");
            let c2 = *c;
            let mut local = Tally::default();
            let r = guarded(|| crate::clock::block_on(async { round_targets_case(c2, rounds, &mut local).await }));
            t.merge(&local);
            match r {
                Ok(Ok(())) => (t, None),
                Ok(Err(v)) => (t, Some((v, *c))),
                Err(p) => (t, Some(((format!("driver panicked: {p}"), "machinery-panic".into()), *c))),
            }
        })
        .collect();
    let mut viols = vec![];
    for (t, v) in results {
        part.tally.merge(&t);
        if let Some(x) = v {
            viols.push(x);
        }
    }
    viols.sort_by_key(|(_, c)| c.ready + c.not_ready + c.dead);
    for ((what, sig), c) in viols {
        if sig == "machinery-panic" {
            part.notes.push(format!("MACHINERY: {what}"));
            continue;
        }
        part.violation("C17", format!("{what} [{}predicate {}, {} ready, {} not ready, {} dead, seed {:?}]", if c.old_dead { "dead peers past half of the grace period, " } else { "" }, c.predicate, c.ready, c.not_ready, c.dead, c.seed), sig, round_cfg_json(&c));
    }
    part.states = part.tally.get("configurations");
    part.transitions = part.tally.get("rounds_observed");
    part.executions = part.tally.get("configurations");
    part.distinct_nontrivial = part.tally.get("cases_with_live_peers_hidden_by_the_predicate");
    if part.tally.get("setup_mismatch") > 0 {
        part.notes.push(format!("MACHINERY: {} configurations did not produce the intended membership", part.tally.get("setup_mismatch")));
    }
    part.sample(json!({"predicate": true, "ready": 0, "not_ready": 1, "dead": 3, "seed": "Unknown"}));
    part.require("cases_with_live_peers_hidden_by_the_predicate");
    part.require("cases_with_dead_peers_scheduled_for_deletion");
    part.require("rounds_with_own_address_in_the_seed_list");
    part.require("rounds_observed");
    part
}

// ------------------------------------------------------------------ what the receive path decodes (C19)

/// On the real UDP transport a datagram is decoded inside `recv`, i.e. inside the server task: a
/// decoder panic unwinds the gossip loop. Every short byte string, and every short prefix of valid
/// messages, must therefore be rejected (or accepted) without panicking.
pub fn decode_on_receive_path(tier: Tier) -> Part {
    let mut part = Part::new("server/decode-on-receive-path");
    part.rule = "ChitchatMessage::deserialize — what UdpSocket::recv runs inside the server task on every datagram — on every byte string of length 0, 1 and 2 (65,793 strings), every 3-byte string starting with the magic number, every 4-byte string starting with magic + protocol version, every 5-byte string starting with a valid 4-byte header (all four message tags), and every prefix of up to 64 bytes (thorough: every prefix) of each message of the C09 corpus; oracle: no panic (an error or a message are both fine); non-trivial = strings the decoder accepts".into();
    let valid = crate::codec::encode(&Msg::BadCluster);
    let (m0, m1, ver) = (valid[0], valid[1], valid[2]);
    let mut inputs: Vec<Vec<u8>> = vec![vec![]];
    for a in 0..=255u8 {
        inputs.push(vec![a]);
        inputs.push(vec![m0, m1, a]);
        inputs.push(vec![m0, m1, ver, a]);
        for tag in 0..4u8 {
            inputs.push(vec![m0, m1, ver, tag, a]);
        }
        for b in 0..=255u8 {
            inputs.push(vec![a, b]);
        }
    }
    let max_prefix = tier.pick(64usize, usize::MAX);
    for (_, bytes) in crate::engines::hostile::corpus(tier) {
        for n in 0..bytes.len().min(max_prefix) {
            inputs.push(bytes[..n].to_vec());
        }
    }
    part.bounds = json!({"inputs": inputs.len()});
    let results: Vec<(u64, Option<(Vec<u8>, String)>)> = inputs
        .par_chunks(4096)
        .map(|chunk| {
            let mut accepted = 0u64;
            let mut bad = None;
            for bytes in chunk {
                match guarded(|| real::real_decode(bytes)) {
                    Ok(Ok(_)) => accepted += 1,
                    Ok(Err(_)) => {}
                    Err(p) => {
                        if bad.is_none() {
                            bad = Some((bytes.clone(), p));
                        }
                    }
                }
            }
            (accepted, bad)
        })
        .collect();
    let mut viols: Vec<(Vec<u8>, String)> = vec![];
    for (a, b) in results {
        part.tally.add("accepted_by_the_decoder", a);
        if let Some(x) = b {
            viols.push(x);
        }
    }
    viols.sort_by_key(|(b, _)| b.len());
    for (bytes, p) in viols {
        let hex: String = bytes.iter().map(|b| format!("{b:02x}")).collect();
        part.violation("C19", format!("a datagram of {} bytes [{hex}] makes the decoder panic inside the server task's receive: {p}", bytes.len()), format!("panic:{}", crate::util::short_loc(&p)), json!({"engine":"server","kind":"decode","hex":hex}));
    }
    part.tally.add("inputs", inputs.len() as u64);
    part.states = inputs.len() as u64;
    part.transitions = inputs.len() as u64;
    part.executions = inputs.len() as u64;
    part.distinct_nontrivial = part.tally.get("accepted_by_the_decoder");
    part.sample(json!({"hex": format!("{m0:02x}{m1:02x}"), "note": "the two magic bytes alone"}));
    part.require("accepted_by_the_decoder");
    part
}

/// The real `UdpSocket::recv` as a function from a datagram stream to a message stream: garbage is
/// skipped, valid messages come out unchanged and in order, nothing is fatal. Deciding for the
/// deterministic outcomes (an error, a panic, a wrong message); a timeout is inconclusive.
pub fn udp_recv_sequences(property: &'static str, max_len: usize) -> Part {
    let mut part = Part::new(&format!("server/udp-recv-sequences(len<={max_len})"));
    part.rule = format!("the real chitchat::transport::UdpTransport socket on 127.0.0.1: every sequence of at most {max_len} datagrams over {{empty, 1 byte, the 2 magic bytes, magic + version, 'junk', a valid SYN cut by one byte, a valid ACK cut in the middle, 65,507 zero bytes, a valid tagged SYN, BadCluster, a valid SYN followed by one more byte}} followed by a final valid tagged SYN, sent from a plain UDP socket; `recv()` on the real socket must yield exactly the valid messages of the sequence, in order (garbage skipped, no error, no panic); non-trivial = sequences containing garbage");
    let tagged = |tag: &str| crate::codec::encode(&Msg::Syn { digest: vec![DigestEntry { id: peer_id(), heartbeat: 7, gc: 0, mv: 0 }], cluster_id: tag.to_string() });
    let valid_syn = tagged("c");
    let valid_ack = crate::codec::encode(&Msg::Ack { ops: vec![Op::Node { id: peer_id(), gc: 0, from: 0 }, Op::Kv { key: "k".into(), value: "v".repeat(40), version: 1, status: 0 }] });
    // (name, bytes, the message recv() must yield for it — None: nothing, the datagram is skipped)
    let trailing = {
        let mut b = tagged("with-a-trailing-byte");
        b.push(0x2a);
        b
    };
    let alphabet: Vec<(&'static str, Vec<u8>, Option<Vec<u8>>)> = vec![
        ("empty", vec![], None),
        ("one-byte", valid_syn[..1].to_vec(), None),
        ("magic-only", valid_syn[..2].to_vec(), None),
        ("magic+version", valid_syn[..3].to_vec(), None),
        ("junk", b"junk".to_vec(), None),
        ("syn-cut-by-one", valid_syn[..valid_syn.len() - 1].to_vec(), None),
        ("ack-cut-in-the-middle", valid_ack[..valid_ack.len() / 2].to_vec(), None),
        ("65507-zeros", vec![0u8; 65_507], None),
        ("valid-syn", tagged("mid-sequence"), Some(tagged("mid-sequence"))),
        ("bad-cluster", crate::codec::encode(&Msg::BadCluster), Some(crate::codec::encode(&Msg::BadCluster))),
        // a datagram longer than the message it starts with: the code under test hands the message
        // up (it does not look at what follows); skipping it is accepted too, an error is not
        ("valid-syn+trailing-byte", trailing, Some(tagged("with-a-trailing-byte"))),
    ];
    let mut seqs: Vec<Vec<usize>> = vec![vec![]];
    let mut layer: Vec<Vec<usize>> = vec![vec![]];
    for _ in 0..max_len {
        let mut next = vec![];
        for q in &layer {
            for i in 0..alphabet.len() {
                let mut q2 = q.clone();
                q2.push(i);
                next.push(q2);
            }
        }
        seqs.extend(next.iter().cloned());
        layer = next;
    }
    let n_seqs = seqs.len();
    let alpha = alphabet.clone();
    type Out = (u64, u64, Vec<(String, String, Value)>, Vec<String>);
    let outcome = std::thread::spawn(move || -> Result<Out, String> {
        let rt = tokio::runtime::Builder::new_current_thread().enable_all().build().map_err(|e| e.to_string())?;
        rt.block_on(async move {
            // find a free port for the socket under test (its trait object does not tell its address)
            let probe = std::net::UdpSocket::bind("127.0.0.1:0").map_err(|e| format!("bind: {e}"))?;
            let addr = probe.local_addr().map_err(|e| e.to_string())?;
            drop(probe);
            let mut sock = chitchat::transport::UdpTransport.open(addr).await.map_err(|e| format!("open: {e}"))?;
            let client = tokio::net::UdpSocket::bind("127.0.0.1:0").await.map_err(|e| format!("bind: {e}"))?;
            let (mut ran, mut with_garbage) = (0u64, 0u64);
            let mut viols = vec![];
            let mut notes = vec![];
            for (si, seq) in seqs.iter().enumerate() {
                ran += 1;
                if seq.iter().any(|i| alpha[*i].2.is_none()) {
                    with_garbage += 1;
                }
                let final_syn = crate::codec::encode(&Msg::Syn { digest: vec![], cluster_id: format!("final-{si}") });
                let names: Vec<&str> = seq.iter().map(|i| alpha[*i].0).collect();
                let replay = json!({"engine":"server","udp_recv": names});
                // (expected message, optional): an optional one may also be skipped by the socket
                let mut expected: Vec<(Vec<u8>, bool)> = vec![];
                for i in seq {
                    if client.send_to(&alpha[*i].1, addr).await.is_err() {
                        notes.push(format!("client could not send `{}` (inconclusive)", alpha[*i].0));
                    } else if let Some(m) = &alpha[*i].2 {
                        expected.push((m.clone(), alpha[*i].0 == "valid-syn+trailing-byte"));
                    }
                }
                let _ = client.send_to(&final_syn, addr).await;
                expected.push((final_syn, false));
                let mut bad: Option<(String, String)> = None;
                let mut lost = false;
                let mut k = 0usize;
                while k < expected.len() {
                    match tokio::time::timeout(Duration::from_secs(3), sock.recv()).await {
                        Ok(Ok((_, m))) => {
                            let got = real::real_encode(&m);
                            while k < expected.len() && expected[k].1 && got != expected[k].0 {
                                k += 1;
                            }
                            if k >= expected.len() || got != expected[k].0 {
                                bad = Some((format!("after datagrams {names:?} the socket's message #{k} is not the valid message that was sent"), "udp-recv-wrong-message".into()));
                                break;
                            }
                            k += 1;
                        }
                        Ok(Err(e)) => {
                            bad = Some((format!("recv() returned a fatal error after datagrams {names:?}: {e:#}"), "udp-recv-fatal-on-garbage".into()));
                            break;
                        }
                        Err(_) => {
                            notes.push(format!("timeout waiting for message #{k} after {names:?} (inconclusive)"));
                            lost = true;
                            break;
                        }
                    }
                }
                if let Some((what, sig)) = bad {
                    viols.push((what, sig, replay));
                    // the socket may be unusable now: reopen
                    drop(sock);
                    sock = chitchat::transport::UdpTransport.open(addr).await.map_err(|e| format!("reopen: {e}"))?;
                } else if lost {
                    // drain so that late datagrams do not pollute the next sequence
                    while let Ok(Ok(_)) = tokio::time::timeout(Duration::from_millis(20), sock.recv()).await {}
                }
                if viols.len() > 10 {
                    break;
                }
            }
            Ok((ran, with_garbage, viols, notes))
        })
    })
    .join()
    .unwrap_or_else(|_| Err("PANIC".into()));
    match outcome {
        Ok((ran, with_garbage, viols, notes)) => {
            part.states = ran;
            part.transitions = ran;
            part.executions = ran;
            part.distinct_nontrivial = with_garbage;
            part.tally.add("sequences", ran);
            part.tally.add("sequences_with_garbage", with_garbage);
            for (what, sig, replay) in viols {
                part.violation(property, what, sig, replay);
            }
            let inconclusive = notes.len();
            for n in notes.into_iter().take(5) {
                part.notes.push(n);
            }
            if (ran as usize) < n_seqs || inconclusive > 0 {
                part.exhaustive = false;
                part.caps_hit.push(format!("{} of {n_seqs} sequences run, {inconclusive} inconclusive (timeouts)", ran));
            }
        }
        Err(e) if e == "PANIC" => {
            part.violation(property, "the real UDP socket's recv() panicked on a garbage datagram (the panic unwinds the server task)".into(), "udp-recv-panic".into(), json!({"engine":"server","udp_recv":"see the decode-on-receive-path part for the shortest input"}));
        }
        Err(e) => {
            part.exhaustive = false;
            part.caps_hit.push(format!("not run: {e}"));
            part.notes.push(format!("udp recv sequences inconclusive: {e}"));
        }
    }
    part.sample(json!(["magic-only", "65507-zeros", "valid-syn", "valid-syn(final)"]));
    part
}

// ------------------------------------------------------------------ fairness of the loop under an inbound flood (C19)

const FLOOD: u64 = 20_000;

/// With a datagram always waiting in the socket, the other two branches of the loop (gossip tick,
/// commands) must still be served: a shutdown request completes, a round runs, a user command is
/// executed — long before the flood is over.
pub fn fairness_under_flood() -> Part {
    let mut part = Part::new("server/fairness-under-inbound-flood");
    part.rule = format!("the real gossip loop over the scripted socket whose recv() is ready {FLOOD} times in a row with a valid SYN (a peer or an attacker sending faster than the node processes); while the flood lasts: (a) a shutdown request must complete, (b) a gossip interval must produce a round (own heartbeat raised, SYN attempts), (c) a user gossip command must produce a SYN attempt — each after fewer than {} flood datagrams were consumed; preceded by each of {{nothing, a received SYN, a failed send, a gossip interval}}; the loop picks among ready branches at random: the demand fails for a fair loop with probability < (2/3)^{}", FLOOD / 10, FLOOD / 10);
    #[derive(Clone, Copy, Debug)]
    enum Probe {
        Shutdown,
        Round,
        Command,
    }
    let pres: [&[Ev]; 4] = [&[], &[Ev::RecvSyn], &[Ev::NextSendErr, Ev::RecvSyn], &[Ev::Delay]];
    let mut cases = vec![];
    for pre in pres {
        for probe in [Probe::Shutdown, Probe::Round, Probe::Command] {
            cases.push((pre.to_vec(), probe));
        }
    }
    let results: Vec<Option<(String, String, Value)>> = cases
        .par_iter()
        .map(|(pre, probe)| {
            let pre = pre.clone();
            let probe = *probe;
            let replay = json!({"engine":"server","kind":"flood","pre":pre.iter().map(|e| e.name()).collect::<Vec<_>>(),"probe":format!("{probe:?}")});
            let r = guarded(|| {
                crate::clock::block_on(async {
                    let mut d = Driver::new().await;
                    let mut t = Tally::default();
                    for e in &pre {
                        if d.apply(*e, &mut t).await.is_err() {
                            return None;
                        }
                    }
                    d.shared.flood_left.store(FLOOD, Ordering::SeqCst);
                    d.push_wake();
                    let consumed = |d: &Driver| FLOOD - d.shared.flood_left.load(Ordering::SeqCst);
                    let verdict: Option<String> = match probe {
                        Probe::Shutdown => {
                            let h = d.handle.take().unwrap();
                            let mut fut = Box::pin(h.shutdown());
                            let mut done = false;
                            for _ in 0..20_000 {
                                if let Poll::Ready(_) = poll_once(&mut fut).await {
                                    done = true;
                                    break;
                                }
                                tokio::task::yield_now().await;
                                if d.shared.flood_left.load(Ordering::SeqCst) == 0 {
                                    break;
                                }
                            }
                            let c = consumed(&d);
                            if !done && c >= FLOOD {
                                // give it the chance to finish once the flood is over, to tell starvation from a hang
                                let _ = bounded(&mut fut).await;
                            }
                            if !done || c >= FLOOD / 10 {
                                Some(format!("a shutdown request was not served while datagrams kept arriving: {c} of {FLOOD} consecutive datagrams were processed first{}", if done { "" } else { " (and it had not completed when the flood ended)" }))
                            } else {
                                None
                            }
                        }
                        Probe::Round => {
                            let hb0 = d.own_heartbeat().await;
                            tokio::time::advance(GOSSIP_INTERVAL).await;
                            let mut served_at = None;
                            for _ in 0..20_000 {
                                tokio::task::yield_now().await;
                                let hb = d.own_heartbeat().await;
                                if let (Some(a), Some(b)) = (hb0, hb) {
                                    if b > a {
                                        served_at = Some(consumed(&d));
                                        break;
                                    }
                                }
                                if d.shared.flood_left.load(Ordering::SeqCst) == 0 {
                                    break;
                                }
                            }
                            match served_at {
                                Some(c) if c < FLOOD / 10 => None,
                                Some(c) => Some(format!("a due gossip round only ran after {c} of {FLOOD} consecutive inbound datagrams")),
                                None => Some(format!("a due gossip round did not run while {FLOOD} consecutive inbound datagrams were processed")),
                            }
                        }
                        Probe::Command => {
                            let target = SocketAddr::from(([127, 0, 0, 1], 10_777));
                            let r = d.handle.as_ref().unwrap().gossip(target);
                            let mut served_at = None;
                            if r.is_ok() {
                                for _ in 0..20_000 {
                                    tokio::task::yield_now().await;
                                    if d.shared.sent.lock().unwrap().iter().any(|(to, k, _)| *to == target && *k == "syn") {
                                        served_at = Some(consumed(&d));
                                        break;
                                    }
                                    if d.shared.flood_left.load(Ordering::SeqCst) == 0 {
                                        break;
                                    }
                                }
                            }
                            match served_at {
                                Some(c) if c < FLOOD / 10 => None,
                                Some(c) => Some(format!("a user gossip command was only executed after {c} of {FLOOD} consecutive inbound datagrams")),
                                None => Some(format!("a user gossip command was not executed while {FLOOD} consecutive inbound datagrams were processed")),
                            }
                        }
                    };
                    d.shared.flood_left.store(0, Ordering::SeqCst);
                    if let Some(h) = d.handle.take() {
                        h.abort();
                    }
                    tokio::task::yield_now().await;
                    verdict
                })
            });
            match r {
                Ok(None) => None,
                Ok(Some(what)) => Some((what, "starved-by-inbound-traffic".to_string(), replay)),
                Err(p) => Some((format!("driver panicked: {p}"), "machinery-panic".to_string(), replay)),
            }
        })
        .collect();
    let n = cases.len() as u64;
    for r in results.into_iter().flatten() {
        if r.1 == "machinery-panic" {
            part.notes.push(format!("MACHINERY: {}", r.0));
        } else {
            part.violation("C19", format!("{} [{}]", r.0, r.2), r.1, r.2);
        }
    }
    part.tally.add("cases", n);
    part.states = n;
    part.transitions = n * FLOOD;
    part.executions = n;
    part.distinct_nontrivial = n;
    part.sample(json!({"pre": ["recv-syn"], "probe": "Shutdown"}));
    part
}

/// The round-level clause of C17 (every round contacts the seed when it has to, whatever happened to
/// the earlier sends of the round) on the real server loop: same scripts, only that oracle reported.
pub fn run_c17(tier: Tier, started: Instant) -> Vec<Part> {
    vec![scripts("C17", tier.pick(4usize, 6usize), tier, started), round_targets(tier)]
}

fn scripts(property: &'static str, depth: usize, tier: Tier, started: Instant) -> Part {
    let mut part = Part::new(&format!("server/scripts(len<={depth})"));
    part.rule = format!("the real gossip server (spawn_chitchat) over a scripted Transport/Socket on a paused current-thread runtime; every script of length <= {depth} over {{next send ok / error / blocks until released, receive valid SYN / SYN-ACK / ACK / foreign-cluster SYN, fatal receive error, delay of one gossip interval, user takes the state lock, user gossip command, shutdown request, message whose processing panics (catch-up callback)}}; the driver makes one thing ready at a time and yields until the server is quiescent; after each script closing probes check: loop alive (termination watcher pending, valid SYN answered by a SYN-ACK, a gossip interval raises the heartbeat and attempts a SYN to every target including the configured seed even when an earlier send of the round failed, a shutdown requested right behind a user gossip command completes) or, after a fatal error / panic, termination reported through the watcher and nothing sent afterwards; user lock always granted within {YIELD_BOUND} yields, also while a send is blocked; non-trivial = scripts containing a fault (send error, blocked send, fatal error, panic)");
    part.bounds = json!({"alphabet": ALPHABET.iter().map(|e| e.name()).collect::<Vec<_>>(), "depth": depth, "yield_bound": YIELD_BOUND});
    let deadline = started + Duration::from_secs(tier.pick(50, 3000));
    let capped = AtomicBool::new(false);
    // enumerate scripts
    let mut scripts: Vec<Vec<Ev>> = vec![vec![]];
    let mut layer: Vec<Vec<Ev>> = vec![vec![]];
    for _ in 0..depth {
        let mut next = vec![];
        for s in &layer {
            // nothing interesting can follow a completed shutdown
            if s.last() == Some(&Ev::Shutdown) {
                continue;
            }
            for e in ALPHABET {
                let mut s2 = s.clone();
                s2.push(e);
                next.push(s2);
            }
        }
        scripts.extend(next.iter().cloned());
        layer = next;
    }
    let results: Vec<(Tally, Option<(V, Vec<Ev>)>)> = scripts
        .par_iter()
        .map(|s| {
            let mut t = Tally::default();
            if Instant::now() > deadline {
                capped.store(true, Ordering::Relaxed);
                return (t, None);
            }
            t.inc("scripts");
            if s.iter().any(|e| matches!(e, Ev::NextSendErr | Ev::NextSendBlocks | Ev::RecvFatal | Ev::RecvPanicking)) {
                t.inc("scripts_with_a_fault");
            }
            let v = run_script(s, &mut t);
            (t, v.map(|v| (v, s.clone())))
        })
        .collect();
    let mut viols = vec![];
    for (t, v) in results {
        part.tally.merge(&t);
        if let Some(x) = v {
            viols.push(x);
        }
    }
    viols.sort_by_key(|(_, s)| s.len());
    for ((what, sig), s) in viols {
        if property == "C17" && sig != "round-skipped-the-seed" {
            continue;
        }
        part.violation(property, format!("{what} [script {:?}]", s.iter().map(|e| e.name()).collect::<Vec<_>>()), sig, json!({"engine":"server","script":s.iter().map(|e| e.name()).collect::<Vec<_>>()}));
    }
    part.states = part.tally.get("scripts");
    part.transitions = part.tally.get("scripts") * (depth as u64 + 3);
    part.executions = part.tally.get("scripts");
    part.distinct_nontrivial = part.tally.get("scripts_with_a_fault");
    if capped.load(Ordering::Relaxed) {
        part.exhaustive = false;
        part.caps_hit.push("wall cap".into());
    }
    part.sample(json!(["next-send-blocks", "recv-syn", "user-takes-the-lock", "shutdown-request"]));
    part.require("user_locks_granted_while_a_send_is_blocked");
    part.require("terminations_reported");
    part.require("live_probes_passed");
    part
}

/// Non-deciding smoke of the real UDP transport over loopback: garbage, an oversized send, then a
/// valid SYN must still be answered. A failure here (no loopback, timeout) is reported as a note
/// and never changes the verdict.
pub fn udp_smoke() -> Part {
    let mut part = Part::new("server/udp-loopback-smoke(non-deciding)");
    part.rule = "the real gossip server over chitchat::transport::UdpTransport on 127.0.0.1: a 4-byte garbage datagram, a datagram with a valid header and a truncated body, a 65,507-byte datagram of zeros, then a valid SYN which must be answered by a SYN-ACK within 5 s of real time; the outcome is recorded as a note only (real sockets and real time are not owned by the explorer)".into();
    part.exhaustive = false;
    part.caps_hit.push("smoke, not an exploration".into());
    let outcome = std::thread::spawn(|| -> Result<String, String> {
        let rt = tokio::runtime::Builder::new_current_thread().enable_all().build().map_err(|e| e.to_string())?;
        rt.block_on(async {
            let port = 20_000 + (std::process::id() % 20_000) as u16;
            let addr: SocketAddr = ([127, 0, 0, 1], port).into();
            let config = ChitchatConfig {
                chitchat_id: real::to_real_id(&Id::v4("udp", 1, port)),
                cluster_id: "c".into(),
                gossip_interval: Duration::from_secs(3600),
                listen_addr: addr,
                seed_nodes: vec![],
                failure_detector_config: FailureDetectorConfig::default(),
                marked_for_deletion_grace_period: Duration::from_secs(3600),
                catchup_callback: None,
                extra_liveness_predicate: None,
            };
            let handle = spawn_chitchat(config, vec![], &chitchat::transport::UdpTransport).await.map_err(|e| format!("spawn: {e}"))?;
            let sock = tokio::net::UdpSocket::bind("127.0.0.1:0").await.map_err(|e| format!("bind: {e}"))?;
            let _ = sock.send_to(b"junk", addr).await;
            let valid = real::real_encode(&real::build_real(&Msg::Syn { digest: vec![], cluster_id: "c".into() }).unwrap());
            let _ = sock.send_to(&valid[..valid.len() - 1], addr).await;
            let _ = sock.send_to(&vec![0u8; 65_507], addr).await;
            sock.send_to(&valid, addr).await.map_err(|e| format!("send: {e}"))?;
            let mut buf = vec![0u8; 65_536];
            let r = tokio::time::timeout(Duration::from_secs(5), sock.recv_from(&mut buf)).await;
            let res = match r {
                Ok(Ok((n, _))) => match crate::codec::decode(&buf[..n]) {
                    Ok(d) if d.msg.kind() == "synack" => Ok(format!("valid SYN after 3 bad datagrams answered by a SYN-ACK of {n} bytes")),
                    Ok(d) => Err(format!("answered by a {}", d.msg.kind())),
                    Err(e) => Err(format!("undecodable answer: {}", e.0)),
                },
                Ok(Err(e)) => Err(format!("recv: {e}")),
                Err(_) => Err("no answer within 5 s".into()),
            };
            let _ = handle.shutdown().await;
            res
        })
    })
    .join()
    .unwrap_or_else(|_| Err("smoke thread panicked".into()));
    match outcome {
        Ok(s) => {
            part.notes.push(format!("udp smoke ok: {s}"));
            part.tally.inc("udp_smoke_ok");
        }
        Err(e) => part.notes.push(format!("udp smoke inconclusive (not a verdict): {e}")),
    }
    part.states = 4;
    part.transitions = 4;
    part.executions = 1;
    part.distinct_nontrivial = 4;
    part.sample(json!(["junk", "truncated SYN", "65507 zero bytes", "valid SYN"]));
    part
}

/// Send-fault sequences on the real UDP socket over loopback (deciding, but only on decisive
/// evidence): every sequence of up to `max_len` sends over {small message to a listening peer,
/// oversized message (send fails with EMSGSIZE), small message to an unusable address (port 0)},
/// followed by one more small message. Every small message sent to the peer must be accepted by
/// `send` and arrive as exactly its own bytes, in order. A receive timeout or a socket that cannot
/// be opened is inconclusive (a note), never a violation.
pub fn udp_send_faults(max_len: usize) -> Part {
    let mut part = Part::new(&format!("server/udp-send-fault-sequences(len<={max_len})"));
    part.rule = format!("the real chitchat::transport::UdpTransport socket on 127.0.0.1: every sequence of at most {max_len} sends over {{small SYN to a listening peer, oversized SYN (two 40 KB ids; the OS refuses it), small SYN to port 0}} followed by a final small SYN; each small SYN to the peer must be accepted and must arrive as exactly its own bytes, in order, whatever failed before; non-trivial = sequences containing a failed send");
    #[derive(Clone, Copy, PartialEq, Debug)]
    enum S {
        Small,
        Oversized,
        Unusable,
    }
    let mut seqs: Vec<Vec<S>> = vec![vec![]];
    let mut layer: Vec<Vec<S>> = vec![vec![]];
    for _ in 0..max_len {
        let mut next = vec![];
        for s in &layer {
            for x in [S::Small, S::Oversized, S::Unusable] {
                let mut s2 = s.clone();
                s2.push(x);
                next.push(s2);
            }
        }
        seqs.extend(next.iter().cloned());
        layer = next;
    }
    let n_seqs = seqs.len();
    type Out = (u64, u64, Vec<(String, String, Value)>, Vec<String>);
    let outcome = std::thread::spawn(move || -> Result<Out, String> {
        let rt = tokio::runtime::Builder::new_current_thread().enable_all().build().map_err(|e| e.to_string())?;
        rt.block_on(async move {
            let peer = tokio::net::UdpSocket::bind("127.0.0.1:0").await.map_err(|e| format!("bind: {e}"))?;
            let peer_addr = peer.local_addr().map_err(|e| e.to_string())?;
            let small = |tag: &str| real::build_real(&Msg::Syn { digest: vec![], cluster_id: tag.to_string() }).unwrap();
            let big_id = |c: char, port: u16| Id::v4(&c.to_string().repeat(40_000), 1, port);
            let oversized = || real::build_real(&Msg::Syn { digest: vec![DigestEntry { id: big_id('a', 1), heartbeat: 1, gc: 0, mv: 0 }, DigestEntry { id: big_id('b', 2), heartbeat: 1, gc: 0, mv: 0 }], cluster_id: "c".into() }).unwrap();
            let (mut ran, mut with_fault) = (0u64, 0u64);
            let mut viols = vec![];
            let mut notes = vec![];
            let mut buf = vec![0u8; 70_000];
            for seq in seqs {
                let mut sock = match chitchat::transport::UdpTransport.open("127.0.0.1:0".parse().unwrap()).await {
                    Ok(s) => s,
                    Err(e) => {
                        notes.push(format!("cannot open a UDP socket: {e}"));
                        break;
                    }
                };
                ran += 1;
                if seq.iter().any(|x| *x != S::Small) {
                    with_fault += 1;
                }
                let mut full: Vec<S> = seq.clone();
                full.push(S::Small);
                let replay = json!({"engine":"server","udp_sends": full.iter().map(|x| format!("{x:?}")).collect::<Vec<_>>()});
                let mut expected: Vec<Vec<u8>> = vec![];
                let mut bad = None;
                for (i, step) in full.iter().enumerate() {
                    match step {
                        S::Small => {
                            let m = small(&format!("msg-{i}"));
                            let bytes = real::real_encode(&m);
                            match sock.send(peer_addr, m).await {
                                Ok(()) => expected.push(bytes),
                                Err(e) => {
                                    bad = Some((format!("send #{i} of a small message failed after {:?}: {e:#}", &full[..i]), "udp-send-fails-after-failed-send".to_string()));
                                    break;
                                }
                            }
                        }
                        S::Oversized => {
                            let _ = sock.send(peer_addr, oversized()).await;
                        }
                        S::Unusable => {
                            let _ = sock.send("127.0.0.1:0".parse().unwrap(), small("for-the-unusable-address")).await;
                        }
                    }
                }
                if bad.is_none() {
                    for (k, want) in expected.iter().enumerate() {
                        match tokio::time::timeout(Duration::from_secs(3), peer.recv_from(&mut buf)).await {
                            Ok(Ok((n, _))) => {
                                if &buf[..n] != want.as_slice() {
                                    bad = Some((format!("after sends {:?} the peer's datagram #{k} has {n} bytes and is not the message that was sent ({} bytes)", full, want.len()), "udp-datagram-is-not-the-sent-message".to_string()));
                                    break;
                                }
                            }
                            Ok(Err(e)) => {
                                notes.push(format!("recv error (inconclusive): {e}"));
                                break;
                            }
                            Err(_) => {
                                notes.push(format!("timeout waiting for datagram #{k} after {:?} (inconclusive)", full));
                                break;
                            }
                        }
                    }
                }
                // drain whatever else arrived
                while let Ok(Ok(_)) = tokio::time::timeout(Duration::from_millis(1), peer.recv_from(&mut buf)).await {}
                if let Some((what, sig)) = bad {
                    viols.push((what, sig, replay));
                }
            }
            Ok((ran, with_fault, viols, notes))
        })
    })
    .join()
    .unwrap_or_else(|_| Err("udp thread panicked".into()));
    match outcome {
        Ok((ran, with_fault, viols, notes)) => {
            part.states = ran;
            part.transitions = ran;
            part.executions = ran;
            part.distinct_nontrivial = with_fault;
            part.tally.add("sequences", ran);
            for (what, sig, replay) in viols {
                part.violation("C19", what, sig, replay);
            }
            for n in notes.into_iter().take(5) {
                part.notes.push(n);
            }
            if (ran as usize) < n_seqs {
                part.exhaustive = false;
                part.caps_hit.push("not every sequence could be run (no usable loopback socket)".into());
            }
        }
        Err(e) => {
            part.exhaustive = false;
            part.caps_hit.push(format!("not run: {e}"));
            part.notes.push(format!("udp send-fault sequences inconclusive: {e}"));
        }
    }
    part.sample(json!(["Oversized", "Unusable", "Small", "Small(final)"]));
    part
}

pub fn replay(v: &Value) -> Result<(), String> {
    if v.get("udp_recv").is_some() {
        let p = udp_recv_sequences("C19", 2);
        return match p.violations.first() {
            Some(x) => Err(x.what.clone()),
            None => Ok(()),
        };
    }
    if v.get("udp_sends").is_some() {
        let p = udp_send_faults(3);
        return match p.violations.first() {
            Some(x) => Err(x.what.clone()),
            None => Ok(()),
        };
    }
    if v["kind"].as_str() == Some("flood") {
        let p = fairness_under_flood();
        return match p.violations.first() {
            Some(x) => Err(x.what.clone()),
            None => Ok(()),
        };
    }
    if v["kind"].as_str() == Some("decode") {
        let h = v["hex"].as_str().unwrap_or("");
        let bytes: Vec<u8> = (0..h.len() / 2).filter_map(|i| u8::from_str_radix(&h[2 * i..2 * i + 2], 16).ok()).collect();
        return match guarded(|| real::real_decode(&bytes)) {
            Ok(r) => {
                println!("{} bytes decoded without panic ({})", bytes.len(), if r.is_ok() { "accepted" } else { "rejected" });
                Ok(())
            }
            Err(p) => Err(format!("decoder panicked: {p}")),
        };
    }
    if v["kind"].as_str() == Some("round-targets") {
        let seed = match v["seed"].as_str().unwrap_or("None") {
            "Unknown" => SeedKind::Unknown,
            "Ready" => SeedKind::Ready,
            "NotReady" => SeedKind::NotReady,
            "Dead" => SeedKind::Dead,
            "SelfAndUnknown" => SeedKind::SelfAndUnknown,
            _ => SeedKind::None,
        };
        let c = RoundCfg {
            old_dead: v["old_dead"].as_bool().unwrap_or(false),
            predicate: v["predicate"].as_bool().unwrap_or(false),
            ready: v["ready"].as_u64().unwrap_or(0) as usize,
            not_ready: v["not_ready"].as_u64().unwrap_or(0) as usize,
            dead: v["dead"].as_u64().unwrap_or(0) as usize,
            seed,
        };
        let mut t = Tally::default();
        // the server's generator is not scripted: repeat the configuration a few times
        for _ in 0..5 {
            let r = guarded(|| crate::clock::block_on(async { round_targets_case(c, 12, &mut t).await }));
            match r {
                Ok(Ok(())) => {}
                Ok(Err((what, _))) => return Err(what),
                Err(p) => return Err(format!("driver panicked: {p}")),
            }
        }
        println!("configuration ran 5 x 12 rounds; counters {}", t.to_json());
        return Ok(());
    }
    let script: Vec<Ev> = v["script"].as_array().map(|a| a.iter().filter_map(|e| Ev::from_name(e.as_str()?)).collect()).unwrap_or_default();
    let mut t = Tally::default();
    match run_script(&script, &mut t) {
        Some((what, _)) => Err(what),
        None => {
            println!("script ran; counters {}", t.to_json());
            Ok(())
        }
    }
}

#[allow(dead_code)]
fn _unused(_: Meaning) {}
