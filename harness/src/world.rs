//! N real `Chitchat` nodes + a network bag + the paused clock + owner ledgers, with the oracles of
//! C01-C05, C07 (content clause), C08 (traffic), C20 evaluated on demand for one step.

use std::collections::{BTreeMap, BTreeSet};
use std::sync::Arc;
use std::time::Duration;

use chitchat::verif::ChoicePoint;
use serde_json::{json, Value};

use crate::codec::{self, Id, MemberDelta};
use crate::node::{Node, NodeOpts};
use crate::real::{self, Meaning};
use crate::refmodel::{Call, RefMap};
use crate::util::{guarded, short_loc, Tally};

#[derive(Clone, Debug)]
pub struct Cfg {
    pub n: usize,
    pub keys: Vec<String>,
    /// value table; index 0 is reserved for "" (what a delete stores)
    pub vals: Vec<String>,
    pub grace_ms: u64,
    /// cluster id per node (isolation engine uses two different ones)
    pub cluster_ids: Vec<String>,
    pub seeds: Vec<Vec<usize>>,
    /// oracles to evaluate ("C02", ...)
    pub props: BTreeSet<&'static str>,
    /// nodes whose advertise address is an IPv4-mapped IPv6 address (::ffff:127.0.0.1)
    pub mapped_addr_nodes: Vec<usize>,
    /// nodes that use node 0's node id (and the same generation): distinct members that differ by
    /// their advertised address only
    pub same_node_id_as_0: Vec<usize>,
}

impl Cfg {
    pub fn simple(n: usize, big: bool, props: &[&'static str]) -> Cfg {
        let mut vals = vec!["".to_string(), "1".to_string(), "2".to_string()];
        if big {
            vals.push(crate::util::text(40_000, crate::util::Content::Mixed, 1));
            vals.push(crate::util::text(40_000, crate::util::Content::Mixed, 2));
        }
        Cfg {
            n,
            keys: vec!["a".to_string(), "b".to_string(), "c".to_string(), "d".to_string()],
            vals,
            grace_ms: 10_000,
            cluster_ids: vec!["c".to_string(); n],
            seeds: vec![vec![]; n],
            props: props.iter().cloned().collect(),
            mapped_addr_nodes: vec![],
            same_node_id_as_0: vec![],
        }
    }
    pub fn has(&self, p: &str) -> bool {
        self.props.contains(p)
    }
}

#[derive(Clone, Debug, PartialEq, Eq, PartialOrd, Ord, Hash)]
pub enum Action {
    Write { node: u8, call: Call, key: u8, val: u8 },
    Syn { from: u8, to: u8 },
    Deliver { idx: u8, keep: bool, choices: Vec<u8> },
    Gc { node: u8 },
    Tick,
    Handshake { from: u8, to: u8, choices: Vec<u8> },
    Restart { node: u8 },
}

impl Action {
    pub fn choices(&self) -> &[u8] {
        match self {
            Action::Deliver { choices, .. } | Action::Handshake { choices, .. } => choices,
            _ => &[],
        }
    }
    pub fn with_choices(&self, c: Vec<u8>) -> Action {
        match self {
            Action::Deliver { idx, keep, .. } => Action::Deliver { idx: *idx, keep: *keep, choices: c },
            Action::Handshake { from, to, .. } => Action::Handshake { from: *from, to: *to, choices: c },
            a => a.clone(),
        }
    }
    pub fn to_json(&self, cfg: &Cfg) -> Value {
        match self {
            Action::Write { node, call, key, val } => {
                let v = &cfg.vals[*val as usize];
                let shown = if v.len() > 16 { format!("<{} bytes #{}>", v.len(), val) } else { v.clone() };
                json!({"op":"write","node":node,"call":call.name(),"key":cfg.keys[*key as usize],"val":val,"value":shown})
            }
            Action::Syn { from, to } => json!({"op":"syn","from":from,"to":to}),
            Action::Deliver { idx, keep, choices } => json!({"op":"deliver","idx":idx,"keep":keep,"choices":choices}),
            Action::Gc { node } => json!({"op":"gc","node":node}),
            Action::Tick => json!({"op":"tick","ms":cfg.grace_ms}),
            Action::Handshake { from, to, choices } => json!({"op":"handshake","from":from,"to":to,"choices":choices}),
            Action::Restart { node } => json!({"op":"restart","node":node}),
        }
    }
    pub fn from_json(v: &Value, cfg: &Cfg) -> Option<Action> {
        let u = |k: &str| v[k].as_u64().map(|x| x as u8);
        let ch = || v["choices"].as_array().map(|a| a.iter().filter_map(|x| x.as_u64().map(|x| x as u8)).collect::<Vec<u8>>()).unwrap_or_default();
        Some(match v["op"].as_str()? {
            "write" => Action::Write {
                node: u("node")?,
                call: Call::from_name(v["call"].as_str()?)?,
                key: cfg.keys.iter().position(|k| Some(k.as_str()) == v["key"].as_str())? as u8,
                val: u("val")?,
            },
            "syn" => Action::Syn { from: u("from")?, to: u("to")? },
            "deliver" => Action::Deliver { idx: u("idx")?, keep: v["keep"].as_bool()?, choices: ch() },
            "gc" => Action::Gc { node: u("node")? },
            "tick" => Action::Tick,
            "handshake" => Action::Handshake { from: u("from")?, to: u("to")?, choices: ch() },
            "restart" => Action::Restart { node: u("node")? },
            _ => return None,
        })
    }
}

#[derive(Clone)]
pub struct InFlight {
    pub from: u8,
    pub to: u8,
    pub bytes: Arc<Vec<u8>>,
    /// independent decoder's reading of `bytes`
    pub meaning: Arc<Meaning>,
}

#[derive(Clone, Debug, Default, PartialEq, Eq, Hash, PartialOrd, Ord)]
pub struct Used {
    pub writes: u8,
    pub syns: u8,
    pub dups: u8,
    pub gcs: u8,
    pub ticks: u8,
    pub handshakes: u8,
    pub restarts: u8,
}

/// Light snapshot of one copy: no value strings (values are compared in place with the ledger).
#[derive(Clone, Debug, PartialEq, Eq, Hash, PartialOrd, Ord, Default)]
pub struct Copy {
    pub heartbeat: u64,
    pub gc: u64,
    pub mv: u64,
    /// key -> (version, status, age >= grace, value fingerprint)
    pub entries: BTreeMap<String, (u64, u8, bool, u32)>,
}

/// Cheap fingerprint of a value (length, first and last bytes): distinguishes the few values of an
/// exploration's alphabet; exact equality with the owner's write is checked against the ledger.
pub fn value_fp(v: &str) -> u32 {
    let b = v.as_bytes();
    let mut h: u32 = b.len() as u32;
    for x in b.iter().take(12).chain(b.iter().rev().take(12)) {
        h = h.wrapping_mul(0x0100_0193) ^ (*x as u32);
    }
    h
}

pub type NodeCopies = BTreeMap<Id, Copy>;

#[derive(Default)]
pub struct StepOut {
    pub choice_log: Vec<ChoicePoint>,
    pub tally: Tally,
    /// (property, what, signature)
    pub violations: Vec<(&'static str, String, String)>,
    pub panicked: bool,
}

impl StepOut {
    fn viol(&mut self, p: &'static str, what: String, sig: String) {
        self.violations.push((p, what, sig));
    }
}

pub struct World {
    pub cfg: Arc<Cfg>,
    pub nodes: Vec<Node>,
    pub bag: Vec<InFlight>,
    /// ledger of every incarnation that ever wrote, by id
    pub ledgers: BTreeMap<Id, RefMap>,
    /// last known heartbeat of incarnations that were restarted away
    pub final_heartbeat: BTreeMap<Id, u64>,
    /// (node, member, key, version) installed by a non-reset delta behind the receiving mid-reset
    /// copy's watermark (cause signature of known finding KF-1)
    pub taint: BTreeSet<(u8, Id, String, u64)>,
    pub used: Used,
    pub now_ms: u64,
}

fn node_id(i: usize, generation: u64) -> Id {
    Id::v4(&format!("n{i}"), generation, 10_000 + i as u16)
}

fn node_id_cfg(cfg: &Cfg, i: usize, generation: u64) -> Id {
    let mut id = node_id(i, generation);
    if cfg.mapped_addr_nodes.contains(&i) {
        id.addr = format!("[::ffff:127.0.0.1]:{}", 10_000 + i).parse().unwrap();
    }
    if cfg.same_node_id_as_0.contains(&i) {
        id.node_id = "n0".into();
    }
    id
}

impl World {
    pub fn new(cfg: Arc<Cfg>) -> World {
        let mut nodes = vec![];
        let mut ledgers = BTreeMap::new();
        for i in 0..cfg.n {
            let id = node_id_cfg(&cfg, i, 0);
            let opts = NodeOpts {
                cluster_id: cfg.cluster_ids[i].clone(),
                grace: Duration::from_millis(cfg.grace_ms),
                seeds: cfg.seeds[i].iter().map(|j| node_id(*j, 0).addr).collect(),
                ..Default::default()
            };
            nodes.push(Node::new(&id, &opts));
            ledgers.insert(id, RefMap::default());
        }
        World { cfg, nodes, bag: vec![], ledgers, final_heartbeat: BTreeMap::new(), taint: BTreeSet::new(), used: Used::default(), now_ms: 0 }
    }

    pub fn copies(&self, i: usize) -> NodeCopies {
        let now = tokio::time::Instant::now();
        let grace = Duration::from_millis(self.cfg.grace_ms);
        self.nodes[i]
            .cc
            .node_states()
            .iter()
            .map(|(id, ns)| {
                let entries = ns
                    .key_values_including_deleted()
                    .map(|(k, vv)| {
                        let e = crate::node::entry_snap_light(vv, now);
                        (k.to_string(), (vv.version, e.0, e.1.map(|a| a >= grace).unwrap_or(false), value_fp(&vv.value)))
                    })
                    .collect();
                (real::from_real_id(id), Copy { heartbeat: ns.heartbeat().into(), gc: ns.last_gc_version(), mv: ns.max_version(), entries })
            })
            .collect()
    }

    fn owner_index(&self, id: &Id) -> Option<usize> {
        self.nodes.iter().position(|n| &n.id == id)
    }

    fn owner_heartbeat(&self, id: &Id) -> Option<u64> {
        if let Some(i) = self.owner_index(id) {
            let ns = self.nodes[i].cc.node_state(&self.nodes[i].real_id)?;
            return Some(ns.heartbeat().into());
        }
        self.final_heartbeat.get(id).copied()
    }

    // ------------------------------------------------------------------ oracles

    /// C03 + C02 on every copy held by node `i` (values compared in place with the ledger).
    fn check_copies(&self, i: usize, out: &mut StepOut) {
        let c02 = self.cfg.has("C02");
        let c03 = self.cfg.has("C03") || self.cfg.has("C05");
        if !c02 && !c03 {
            return;
        }
        for (rid, ns) in self.nodes[i].cc.node_states() {
            let member = real::from_real_id(rid);
            let Some(ledger) = self.ledgers.get(&member) else {
                if c03 {
                    out.viol("C03", format!("node {i} holds a copy of unknown member {member:?}"), "unknown-member".into());
                }
                continue;
            };
            let (gc, mv) = (ns.last_gc_version(), ns.max_version());
            if c03 {
                if mv > ledger.mv {
                    for p in ["C03", "C05"] {
                        if self.cfg.has(p) {
                            out.viol(p, format!("node {i}: copy of {} has max_version {mv} above the owner's {}", member.node_id, ledger.mv), "copy-ahead-of-owner".into());
                        }
                    }
                }
                if let Some(ohb) = self.owner_heartbeat(&member) {
                    let hb: u64 = ns.heartbeat().into();
                    if hb > ohb && self.cfg.has("C03") {
                        out.viol("C03", format!("node {i}: heartbeat {hb} recorded for {} exceeds the owner's {ohb}", member.node_id), "heartbeat-ahead-of-owner".into());
                    }
                }
            }
            // entries must be ledger writes
            for (k, vv) in ns.key_values_including_deleted() {
                let status = crate::node::status_kind(vv);
                match ledger.write_at(vv.version) {
                    Some(w) if w.key == k && w.value == vv.value && w.status == status => {}
                    other => {
                        if self.cfg.has("C03") {
                            out.viol(
                                "C03",
                                format!(
                                    "node {i}: copy of {} holds {k:?}=({} bytes, v{}, status {status}) but the owner's write at that version is {:?}",
                                    member.node_id,
                                    vv.value.len(),
                                    vv.version,
                                    other.map(|w| (w.key.clone(), w.value.len(), w.status))
                                ),
                                "entry-not-in-ledger".into(),
                            );
                        }
                    }
                }
            }
            if c02 {
                for (k, ver) in &ledger.latest {
                    if *ver > mv {
                        continue;
                    }
                    let w = ledger.write_at(*ver).unwrap();
                    let held = ns.get_versioned(k);
                    let ok = match held {
                        Some(vv) => vv.version == w.version && vv.value == w.value && crate::node::status_kind(vv) == w.status,
                        None => w.status != 0 && w.version <= gc,
                    };
                    if !ok {
                        let tainted = held.map(|vv| self.taint.contains(&(i as u8, member.clone(), k.clone(), vv.version))).unwrap_or(false);
                        let sig = if tainted { "midreset-accepts-delta-behind-watermark" } else if held.is_none() { "entry-missing-below-frontier" } else { "stale-entry-below-frontier" };
                        out.viol(
                            "C02",
                            format!(
                                "node {i}: copy of {} (gc {gc}, mv {mv}) holds {:?} for key {k:?} but the owner's latest write is (v{}, status {}, {} bytes)",
                                member.node_id,
                                held.map(|vv| (vv.version, crate::node::status_kind(vv), vv.value.len())),
                                w.version,
                                w.status,
                                w.value.len()
                            ),
                            sig.into(),
                        );
                    }
                }
            }
        }
    }

    /// C16: no node knows a member of a cluster with a different id; live/dead sets likewise.
    pub fn check_isolation(&self, out: &mut StepOut) {
        for i in 0..self.cfg.n {
            let mine = &self.cfg.cluster_ids[i];
            let foreign = |id: &Id| -> bool {
                // node ids are n<j>: find the cluster of the node that owns the id
                self.ledgers.keys().any(|k| k == id) && {
                    let j: usize = id.node_id[1..].parse().unwrap_or(0);
                    &self.cfg.cluster_ids[j] != mine
                }
            };
            for rid in self.nodes[i].cc.node_states().keys() {
                let id = real::from_real_id(rid);
                if foreign(&id) {
                    out.viol("C16", format!("node {i} (cluster {mine:?}) knows member {} of another cluster", id.node_id), "foreign-member-leaked".into());
                }
            }
            for rid in self.nodes[i].cc.live_nodes().chain(self.nodes[i].cc.dead_nodes()) {
                let id = real::from_real_id(rid);
                if foreign(&id) {
                    out.viol("C16", format!("node {i} tracks liveness of member {} of another cluster", id.node_id), "foreign-member-leaked".into());
                }
            }
        }
    }

    /// C04 monotonicity of node `i` between two snapshots. `gc_action`: the step was a local GC
    /// pass (entries may disappear, the watermark may rise).
    fn check_monotone(&self, i: usize, before: &NodeCopies, after: &NodeCopies, gc_action: bool, out: &mut StepOut) {
        if !self.cfg.has("C04") {
            return;
        }
        for (m, b) in before {
            let Some(a) = after.get(m) else {
                out.viol("C04", format!("node {i}: copy of {} disappeared", m.node_id), "copy-removed".into());
                continue;
            };
            if (a.gc, a.mv) < (b.gc, b.mv) {
                out.viol("C04", format!("node {i}: frontier of {} went from ({},{}) to ({},{})", m.node_id, b.gc, b.mv, a.gc, a.mv), "frontier-decreased".into());
            }
            let reset = a.gc > b.gc;
            for (k, (bv, _, _, _)) in &b.entries {
                match a.entries.get(k) {
                    Some((av, _, _, _)) => {
                        if av < bv && !reset {
                            out.viol("C04", format!("node {i}: version of {}/{k} went from {bv} to {av} without a reset", m.node_id), "key-version-decreased".into());
                        }
                    }
                    None => {
                        if !reset && !gc_action {
                            out.viol("C04", format!("node {i}: entry {}/{k} v{bv} vanished without reset or GC", m.node_id), "entry-vanished".into());
                        }
                    }
                }
            }
        }
    }

    /// C07 content clause + C08 on one emitted message.
    fn check_emitted(&self, sender: usize, msg: &chitchat::ChitchatMessage, bytes: &[u8], decoded: &codec::Decoded, out: &mut StepOut) {
        let meaning_real = real::meaning_of_real(msg);
        if self.cfg.has("C08") {
            out.tally.inc("c08_messages_checked");
            use chitchat::Serializable;
            if msg.serialized_len() != bytes.len() {
                out.viol("C08", format!("serialized_len {} != bytes written {}", msg.serialized_len(), bytes.len()), "announced-length".into());
            }
            if decoded.consumed != bytes.len() {
                out.viol("C08", format!("independent decoder consumed {} of {} bytes", decoded.consumed, bytes.len()), "trailing-bytes".into());
            }
            match real::meaning_of_ast(&decoded.msg, false) {
                Ok(m) if m == meaning_real => {}
                other => out.viol("C08", format!("independent decoder reads {:?}, in-memory message is {:?}", other.map(|m| m.kind()), meaning_real.kind()), "decode-disagreement".into()),
            }
            match real::real_decode(bytes) {
                Ok((m2, used)) => {
                    if used != bytes.len() || real::meaning_of_real(&m2) != meaning_real || &m2 != msg {
                        out.viol("C08", "real decode(real encode(m)) != m".into(), "roundtrip".into());
                    }
                }
                Err(e) => out.viol("C08", format!("real decoder rejects the real encoder's output: {e}"), "roundtrip".into()),
            }
        }
        if self.cfg.has("C07") {
            out.tally.inc("c07_messages_checked");
            if bytes.len() > codec::MAX_DATAGRAM {
                out.viol("C07", format!("{} of {} bytes", meaning_real.kind(), bytes.len()), "datagram-too-large".into());
            }
            for md in meaning_real.members() {
                self.check_member_delta_content(sender, md, out);
            }
        }
    }

    fn check_member_delta_content(&self, sender: usize, md: &MemberDelta, out: &mut StepOut) {
        let rid = real::to_real_id(&md.id);
        let Some(ns) = self.nodes[sender].cc.node_state(&rid) else {
            out.viol("C07", format!("delta mentions {} which the sender does not hold", md.id.node_id), "delta-unknown-member".into());
            return;
        };
        // delta max version: the last entry's version, or the SetMaxVersion tail, or (header only) nothing
        let dmax = if md.max_version > 0 { md.max_version.max(md.from) } else { md.from };
        let mut expected: Vec<(&str, &chitchat::VersionedValue)> =
            ns.key_values_including_deleted().filter(|(_, vv)| vv.version > md.from && vv.version <= dmax).collect();
        expected.sort_by_key(|(_, vv)| vv.version);
        let same = expected.len() == md.kvs.len()
            && expected.iter().zip(md.kvs.iter()).all(|((k, vv), (dk, dv, dver, dst))| k == dk && vv.value == *dv && vv.version == *dver && crate::node::status_kind(vv) == *dst);
        if !same {
            out.viol(
                "C07",
                format!(
                    "delta for {} from {} carries versions {:?} but the sender holds versions {:?} in ({}, {}]",
                    md.id.node_id,
                    md.from,
                    md.kvs.iter().map(|k| k.2).collect::<Vec<_>>(),
                    expected.iter().map(|(_, vv)| vv.version).collect::<Vec<_>>(),
                    md.from,
                    dmax
                ),
                "delta-content".into(),
            );
        }
        if md.kvs.is_empty() && md.max_version != 0 && md.max_version != ns.max_version() {
            out.viol("C07", format!("SetMaxVersion {} differs from the sender's max version {}", md.max_version, ns.max_version()), "set-max-version".into());
        }
        if md.gc != ns.last_gc_version() {
            out.viol("C07", format!("member header announces gc {} but the sender's copy has {}", md.gc, ns.last_gc_version()), "delta-gc-field".into());
        }
    }

    // ------------------------------------------------------------------ steps

    fn emit(&mut self, from: usize, to: usize, msg: chitchat::ChitchatMessage, check: bool, out: &mut StepOut) {
        let bytes = match guarded(|| real::real_encode(&msg)) {
            Ok(b) => b,
            Err(p) => {
                for prop in ["C07", "C08", "C04"] {
                    out.viol(prop, format!("node {from} cannot serialize the message it wants to send (panic): {p}"), format!("panic:{}", short_loc(&p)));
                }
                return;
            }
        };
        let decoded = match codec::decode(&bytes) {
            Ok(d) => d,
            Err(e) => {
                out.viol("C08", format!("independent decoder rejects a real emission: {}", e.0), "decode-disagreement".into());
                return;
            }
        };
        if check {
            self.check_emitted(from, &msg, &bytes, &decoded, out);
        }
        let meaning = match real::meaning_of_ast(&decoded.msg, false) {
            Ok(m) => m,
            Err(e) => {
                out.viol("C08", format!("real emission violates the documented op grammar: {e}"), "decode-disagreement".into());
                return;
            }
        };
        match &meaning {
            Meaning::SynAck { members, .. } | Meaning::Ack { members } => {
                if members.iter().any(|m| m.from == 0 && m.gc > 0) {
                    out.tally.inc("deltas_with_reset_header");
                }
                if !members.is_empty() {
                    out.tally.inc("nonempty_deltas");
                }
            }
            _ => {}
        }
        self.bag.push(InFlight { from: from as u8, to: to as u8, bytes: Arc::new(bytes), meaning: Arc::new(meaning) });
    }

    /// Delivers one message (bytes) to node `to`. Returns the reply, if any.
    fn deliver(&mut self, m: &InFlight, check: bool, out: &mut StepOut) -> Option<chitchat::ChitchatMessage> {
        let to = m.to as usize;
        let (msg, _) = match real::real_decode(&m.bytes) {
            Ok(x) => x,
            Err(e) => {
                out.viol("C08", format!("real decoder rejects an in-flight message: {e}"), "roundtrip".into());
                return None;
            }
        };
        // fast path while replaying a prefix: no snapshots unless the KF-1 taint tracking needs them
        if !check {
            let need_taint = self.cfg.has("C02")
                && m.meaning.members().iter().any(|md| {
                    self.nodes[to]
                        .cc
                        .node_state(&real::to_real_id(&md.id))
                        .map(|ns| ns.max_version() < ns.last_gc_version() && md.gc < ns.last_gc_version())
                        .unwrap_or(false)
                });
            if !need_taint {
                let node = &mut self.nodes[to];
                return match guarded(|| node.cc.verif_process_message(msg)) {
                    Ok(r) => r,
                    Err(_) => {
                        out.panicked = true;
                        None
                    }
                };
            }
        }
        let before = self.copies(to);
        let cb_before = self.nodes[to].callback_count();
        let node = &mut self.nodes[to];
        let res = guarded(|| node.cc.verif_process_message(msg));
        let reply = match res {
            Ok(r) => r,
            Err(p) => {
                out.panicked = true;
                let sig = format!("panic:{}", short_loc(&p));
                for prop in ["C04"] {
                    if self.cfg.has(prop) {
                        out.viol("C04", format!("node {to} panicked while processing a {} from node {}: {p}", m.meaning.kind(), m.from), sig.clone());
                    }
                }
                return None;
            }
        };
        let after = self.copies(to);
        let cb_after = self.nodes[to].callback_count();
        let own = self.nodes[to].id.clone();

        // taint tracking (cause signature of KF-1) and event counters; needed on every step, also
        // while replaying a prefix
        for md in m.meaning.members() {
            let b = before.get(&md.id);
            let a = after.get(&md.id);
            let (Some(b), Some(a)) = (b, a) else { continue };
            if a.gc > b.gc {
                out.tally.inc("resets_applied");
                if a.mv < a.gc {
                    out.tally.inc("mid_reset_copies_created");
                }
            } else if a.mv > b.mv {
                out.tally.inc("incremental_applied");
                if b.mv < b.gc && md.gc < b.gc {
                    out.tally.inc("delta_behind_watermark_into_midreset_copy");
                    if let Some(ledger) = self.ledgers.get(&md.id) {
                        for (k, (ver, _, _, _)) in &a.entries {
                            let newly = b.entries.get(k).map(|(bv, _, _, _)| bv != ver).unwrap_or(true);
                            if newly && ledger.ledger.iter().any(|w| &w.key == k && w.version > *ver && w.version <= b.gc) {
                                self.taint.insert((to as u8, md.id.clone(), k.clone(), *ver));
                            }
                        }
                    }
                }
            } else if !md.kvs.is_empty() || md.max_version > 0 {
                out.tally.inc("member_deltas_without_effect");
            }
        }

        if check && self.cfg.has("C16") {
            out.tally.inc("c16_deliveries_checked");
            let foreign_syn = matches!(&*m.meaning, Meaning::Syn { cluster_id, .. } if cluster_id != &self.cfg.cluster_ids[to]);
            if foreign_syn {
                out.tally.inc("c16_foreign_syns");
                let reply_is_badcluster = reply.as_ref().map(|r| real::meaning_of_real(r) == Meaning::BadCluster).unwrap_or(false);
                if !reply_is_badcluster {
                    out.viol("C16", format!("node {to} answered a SYN of cluster {:?} with {:?}", m.meaning.kind(), reply.as_ref().map(|r| real::meaning_of_real(r).kind())), "foreign-syn-not-rejected".into());
                }
                let mut b2 = before.clone();
                if let Some(c) = b2.get_mut(&own) {
                    c.heartbeat += 1;
                }
                if b2 != after {
                    out.viol("C16", format!("node {to}: state changed while rejecting a foreign SYN"), "foreign-syn-changed-state".into());
                }
            }
            if matches!(&*m.meaning, Meaning::BadCluster) {
                out.tally.inc("c16_badcluster_processed");
                let mut b2 = before.clone();
                if let Some(c) = b2.get_mut(&own) {
                    c.heartbeat += 1;
                }
                if b2 != after || reply.is_some() {
                    out.viol("C16", format!("node {to}: a BadCluster reply changed state or was answered"), "badcluster-changed-state".into());
                }
            }
            self.check_isolation(out);
        }
        if check {
            // C05: own namespace untouched, heartbeat + 1
            if self.cfg.has("C05") {
                let (b, a) = (before.get(&own), after.get(&own));
                match (b, a) {
                    (Some(b), Some(a)) => {
                        if (b.gc, b.mv, &b.entries) != (a.gc, a.mv, &a.entries) {
                            out.viol("C05", format!("node {to}: own copy changed by a {} from node {}: ({},{}) -> ({},{})", m.meaning.kind(), m.from, b.gc, b.mv, a.gc, a.mv), "own-copy-changed".into());
                        }
                        if a.heartbeat != b.heartbeat + 1 {
                            out.viol("C05", format!("node {to}: own heartbeat went {} -> {} while processing one message", b.heartbeat, a.heartbeat), "own-heartbeat".into());
                        }
                    }
                    _ => out.viol("C05", format!("node {to}: own copy missing"), "own-copy-missing".into()),
                }
            }
            self.check_monotone(to, &before, &after, false, out);
            self.check_copies(to, out);
            // C20
            if self.cfg.has("C20") {
                let mut reset_seen = false;
                for (mid, a) in &after {
                    let bgc = before.get(mid).map(|b| b.gc).unwrap_or(0);
                    if a.gc > bgc {
                        reset_seen = true;
                    }
                }
                let expected = match &*m.meaning {
                    Meaning::SynAck { .. } | Meaning::Ack { .. } => usize::from(reset_seen),
                    _ => 0,
                };
                out.tally.inc("c20_messages_checked");
                if reset_seen {
                    out.tally.inc("c20_messages_with_reset");
                }
                if cb_after - cb_before != expected {
                    out.viol(
                        "C20",
                        format!("node {to}: catch-up callback invoked {} times for a {} (reset observed: {reset_seen})", cb_after - cb_before, m.meaning.kind()),
                        if reset_seen { "callback-missing-or-repeated" } else { "callback-spurious" }.into(),
                    );
                }
            }
        }
        reply
    }

    pub fn handshake(&mut self, from: usize, to: usize, check: bool, out: &mut StepOut) {
        let syn = self.nodes[from].cc.verif_create_syn_message();
        let bag_len = self.bag.len();
        self.emit(from, to, syn, check, out);
        // deliver SYN, SYN-ACK, ACK in order; nothing else is touched in between
        for _ in 0..3 {
            if self.bag.len() <= bag_len || out.panicked {
                break;
            }
            let m = self.bag.remove(bag_len);
            if let Some(reply) = self.deliver(&m, check, out) {
                self.emit(m.to as usize, m.from as usize, reply, check, out);
            }
        }
        self.bag.truncate(bag_len);
    }

    /// Applies one action on the real objects. With `check`, the oracles selected in the
    /// configuration are evaluated on this step.
    pub fn apply(&mut self, action: &Action, check: bool) -> StepOut {
        let mut out = StepOut::default();
        match action {
            Action::Write { node, call, key, val } => {
                self.used.writes += 1;
                let i = *node as usize;
                let k = self.cfg.keys[*key as usize].clone();
                let v = self.cfg.vals[*val as usize].clone();
                let id = self.nodes[i].id.clone();
                let before = if check { Some(self.copies(i)) } else { None };
                let others_before: Vec<NodeCopies> =
                    if check && self.cfg.has("C05") { (0..self.cfg.n).map(|j| if j == i { NodeCopies::new() } else { self.copies(j) }).collect() } else { vec![] };
                let ns = self.nodes[i].cc.self_node_state();
                let res = guarded(|| match call {
                    Call::Set => ns.set(&k, &v),
                    Call::SetTtl => ns.set_with_ttl(&k, &v),
                    Call::Delete => ns.delete(&k),
                    Call::DeleteTtl => ns.delete_after_ttl(&k),
                });
                let ledger = self.ledgers.get_mut(&id).unwrap();
                ledger.now = self.now_ms;
                let effective = ledger.call(*call, &k, &v);
                if effective {
                    out.tally.inc("effective_writes");
                }
                if let Err(p) = res {
                    out.panicked = true;
                    out.viol("C04", format!("node {i} panicked in {}({k:?}): {p}", call.name()), format!("panic:{}", short_loc(&p)));
                    return out;
                }
                if check {
                    let after = self.copies(i);
                    let ledger = &self.ledgers[&id];
                    let own = &after[&id];
                    if self.cfg.has("C04") {
                        let b = &before.as_ref().unwrap()[&id];
                        let expect = if effective { b.mv + 1 } else { b.mv };
                        if own.mv != expect || own.mv != ledger.mv {
                            out.viol("C04", format!("node {i}: {}({k:?}) moved max_version {} -> {} (reference {})", call.name(), b.mv, own.mv, ledger.mv), "version-allocation".into());
                        }
                        if !effective && b != own {
                            out.viol("C04", format!("node {i}: no-op {}({k:?}) changed the state", call.name()), "noop-changed-state".into());
                        }
                    }
                    self.check_monotone(i, before.as_ref().unwrap(), &after, false, &mut out);
                    if self.cfg.has("C05") {
                        // only the writer's own copy changes
                        for (m, b) in before.as_ref().unwrap() {
                            if m != &id && after.get(m) != Some(b) {
                                out.viol("C05", format!("node {i}: a local write changed its copy of {}", m.node_id), "write-changed-foreign-copy".into());
                            }
                        }
                        for j in 0..self.cfg.n {
                            if j != i && self.copies(j) != others_before[j] {
                                out.viol("C05", format!("a local write on node {i} changed node {j}"), "write-changed-other-node".into());
                            }
                        }
                    }
                    self.check_copies(i, &mut out);
                }
            }
            Action::Syn { from, to } => {
                self.used.syns += 1;
                let msg = self.nodes[*from as usize].cc.verif_create_syn_message();
                self.emit(*from as usize, *to as usize, msg, check, &mut out);
            }
            Action::Deliver { idx, keep, choices } => {
                let m = if *keep {
                    self.used.dups += 1;
                    self.bag[*idx as usize].clone()
                } else {
                    self.bag.remove(*idx as usize)
                };
                chitchat::verif::arm_choices(choices.iter().map(|c| *c as usize).collect());
                let reply = self.deliver(&m, check, &mut out);
                out.choice_log = chitchat::verif::disarm_choices();
                if let Some(reply) = reply {
                    self.emit(m.to as usize, m.from as usize, reply, check, &mut out);
                }
            }
            Action::Gc { node } => {
                self.used.gcs += 1;
                let i = *node as usize;
                let before = if check { self.copies(i) } else { NodeCopies::new() };
                let id = self.nodes[i].id.clone();
                let node = &mut self.nodes[i];
                let res = guarded(|| node.cc.verif_gc_keys_marked_for_deletion());
                let ledger = self.ledgers.get_mut(&id).unwrap();
                ledger.now = self.now_ms;
                ledger.gc(self.cfg.grace_ms);
                if let Err(p) = res {
                    out.panicked = true;
                    out.viol("C04", format!("node {i} panicked in GC: {p}"), format!("panic:{}", short_loc(&p)));
                    return out;
                }
                if check {
                    let after = self.copies(i);
                    for (m, b) in &before {
                        if let Some(a) = after.get(m) {
                            if a.entries.len() < b.entries.len() {
                                out.tally.inc("gc_collected_something");
                            }
                        }
                    }
                    self.check_monotone(i, &before, &after, true, &mut out);
                    self.check_copies(i, &mut out);
                    // own copy must agree with the reference after its GC
                    if self.cfg.has("C04") {
                        let own = &after[&id];
                        let ledger = &self.ledgers[&id];
                        if own.gc != ledger.gc || own.entries.len() != ledger.entries.len() {
                            out.viol("C04", format!("node {i}: after GC own copy has gc {} / {} entries, reference gc {} / {} entries", own.gc, own.entries.len(), ledger.gc, ledger.entries.len()), "gc-disagrees-with-reference".into());
                        }
                    }
                }
            }
            Action::Tick => {
                self.used.ticks += 1;
                crate::clock::advance(Duration::from_millis(self.cfg.grace_ms));
                self.now_ms += self.cfg.grace_ms;
            }
            Action::Handshake { from, to, choices } => {
                self.used.handshakes += 1;
                let c01 = check && self.cfg.has("C01");
                let (bi, bj) = if c01 { (self.copies(*from as usize), self.copies(*to as usize)) } else { (NodeCopies::new(), NodeCopies::new()) };
                chitchat::verif::arm_choices(choices.iter().map(|c| *c as usize).collect());
                self.handshake(*from as usize, *to as usize, check, &mut out);
                out.choice_log = chitchat::verif::disarm_choices();
                if c01 && !out.panicked {
                    // progress clause of C01 on every complete loss-free handshake
                    let (ai, aj) = (self.copies(*from as usize), self.copies(*to as usize));
                    let members: BTreeSet<&Id> = bi.keys().chain(bj.keys()).collect();
                    let (mut lagging, mut advanced) = (0, 0);
                    for m in members {
                        let mvi = bi.get(m).map(|c| c.mv).unwrap_or(0);
                        let mvj = bj.get(m).map(|c| c.mv).unwrap_or(0);
                        if mvi == mvj {
                            continue;
                        }
                        lagging += 1;
                        let (b, a) = if mvi < mvj { (bi.get(m), ai.get(m)) } else { (bj.get(m), aj.get(m)) };
                        if a.map(|c| (c.gc, c.mv)).unwrap_or((0, 0)) > b.map(|c| (c.gc, c.mv)).unwrap_or((0, 0)) {
                            advanced += 1;
                        }
                    }
                    if lagging > 0 {
                        out.tally.inc("handshakes_with_lagging_copy");
                        if advanced == 0 {
                            out.viol("C01", format!("complete handshake {from}->{to} with {lagging} lagging copies advanced none of them"), "no-progress-edge".into());
                        }
                    }
                }
            }
            Action::Restart { node } => {
                self.used.restarts += 1;
                let i = *node as usize;
                let old = self.nodes[i].id.clone();
                if let Some(hb) = self.owner_heartbeat(&old) {
                    self.final_heartbeat.insert(old.clone(), hb);
                }
                let id = node_id_cfg(&self.cfg, i, old.generation + 1);
                let opts = NodeOpts {
                    cluster_id: self.cfg.cluster_ids[i].clone(),
                    grace: Duration::from_millis(self.cfg.grace_ms),
                    ..Default::default()
                };
                self.nodes[i] = Node::new(&id, &opts);
                self.ledgers.insert(id, RefMap::default());
                // messages addressed to the old incarnation's address still arrive at the new one
            }
        }
        out
    }

    /// Canonical, heartbeat-free description of all node states (used in dedup keys and as the
    /// configuration identity for the C01 closure).
    pub fn config_key(&self) -> Vec<(Id, NodeCopiesNoHb)> {
        (0..self.cfg.n)
            .map(|i| {
                let c = self.copies(i);
                (self.nodes[i].id.clone(), c.into_iter().map(|(m, c)| (m, (c.gc, c.mv, c.entries))).collect())
            })
            .collect()
    }

    pub fn bag_key(&self) -> Vec<(u8, u8, Meaning)> {
        let mut v: Vec<(u8, u8, Meaning)> = self.bag.iter().map(|m| (m.from, m.to, strip_heartbeats(&m.meaning))).collect();
        v.sort();
        v
    }

    pub fn describe(&self) -> Value {
        let mut nodes = vec![];
        for i in 0..self.cfg.n {
            let c = self.copies(i);
            let copies: Vec<Value> = c
                .iter()
                .map(|(m, c)| {
                    json!({"member": format!("{}#{}", m.node_id, m.generation), "gc": c.gc, "mv": c.mv, "hb": c.heartbeat,
                           "entries": c.entries.iter().map(|(k,(v,s,old,_))| format!("{k}@{v}{}{}", ["", "(deleted)", "(ttl)"][*s as usize], if *old {"*"} else {""})).collect::<Vec<_>>()})
                })
                .collect();
            nodes.push(json!({"node": i, "copies": copies}));
        }
        json!({"nodes": nodes, "in_flight": self.bag.iter().map(|m| format!("{}->{} {}", m.from, m.to, m.meaning.kind())).collect::<Vec<_>>()})
    }
}

pub type NodeCopiesNoHb = BTreeMap<Id, (u64, u64, BTreeMap<String, (u64, u8, bool, u32)>)>;

pub fn strip_heartbeats(m: &Meaning) -> Meaning {
    let strip = |d: &Vec<codec::DigestEntry>| d.iter().map(|e| codec::DigestEntry { heartbeat: 0, ..e.clone() }).collect::<Vec<_>>();
    match m {
        Meaning::Syn { digest, cluster_id } => Meaning::Syn { digest: strip(digest), cluster_id: cluster_id.clone() },
        Meaning::SynAck { digest, members } => Meaning::SynAck { digest: strip(digest), members: light_members(members) },
        Meaning::Ack { members } => Meaning::Ack { members: light_members(members) },
        Meaning::BadCluster => Meaning::BadCluster,
    }
}

/// Replaces large values by a short fingerprint so that keys stay small (identity of an entry is
/// (member, key, version); its value is checked against the ledger separately).
fn light_members(ms: &[MemberDelta]) -> Vec<MemberDelta> {
    ms.iter()
        .map(|m| MemberDelta {
            kvs: m.kvs.iter().map(|(k, v, ver, st)| (k.clone(), if v.len() > 16 { format!("#{}:{:08x}", v.len(), value_fp(v)) } else { v.clone() }, *ver, *st)).collect(),
            ..m.clone()
        })
        .collect()
}
