#!/bin/bash
# tools/confirm_seeded.sh <Cxx> <demo-test-filter> [properties to check...]
# Confirms a seeded change produced by a sub-agent in its scratch worktree /tmp/wt/<Cxx>:
#  (i) existing suite passes with the change, (ii) demo fails with it, (iii) demo passes without it;
# then stores it under /verif/seeded/<Cxx>/ and runs the given checks against it in /repo.
ID="$1"; FILTER="$2"; shift 2; PROPS="${*:-$ID}"
NAME="${SEEDED_NAME:-$ID}"   # directory name under /verif/seeded (e.g. C01-r2 for a second-round change)
WT=/tmp/wt/$ID; S=$WT/SEEDED
export RUSTUP_TOOLCHAIN=1.88.0 CARGO_NET_OFFLINE=true
cd "$WT" || exit 4
git checkout -q -- . ; git clean -fdq -e SEEDED -e target
git apply "$S/patch.diff" || { echo "patch does not apply"; exit 4; }
suite=$(cargo nextest run --workspace --no-fail-fast --tool-config-file pb:/w/lib/nextest.toml --profile pb --test-threads 8 --offline 2>&1 | grep -E "Summary|^\s+FAIL " | sort -u | head -8 | tr '\n' ';')
git apply "$S/demo.diff" || { echo "demo does not apply on changed tree"; }
with=$(cargo test --offline -p chitchat "$FILTER" 2>&1 | grep -E "^test result|panicked at|^test .*FAILED" | grep -v "0 passed; 0 failed" | head -6 | tr '\n' ';')
git apply -R "$S/patch.diff" || echo "cannot revert patch"
without=$(cargo test --offline -p chitchat "$FILTER" 2>&1 | grep -E "^test result" | grep -v "0 passed; 0 failed" | head -4 | tr '\n' ';')
git checkout -q -- . ; git clean -fdq -e SEEDED -e target
echo "SUITE(with change): $suite"
echo "DEMO(with change): $with"
echo "DEMO(without): $without"
mkdir -p /verif/seeded/$NAME && cp "$S/patch.diff" "$S/demo.diff" "$S/README.md" /verif/seeded/$NAME/
# run my checks against the change (in the scratch copy when USE_MUT=1, so that /repo stays untouched)
cd /verif
RES=""
if [ -n "${USE_MUT:-}" ]; then
  out=$(./tools/mut_check.sh /verif/seeded/$NAME/patch.diff $PROPS)
  echo "$out"
  RES=$(echo "$out" | grep "^CHECK" | sed 's/CHECK \(C[0-9]*\) rc=\([0-9]*\)/\1:rc=\2/' | tr '\n' ' ')
else
  [ -z "$(git -C /repo status --porcelain)" ] || { echo "/repo not clean"; exit 4; }
  git -C /repo apply /verif/seeded/$NAME/patch.diff || { echo "patch does not apply to /repo"; exit 4; }
  for p in $PROPS; do
    out=$(./check $p --tier quick 2>&1); rc=$?
    RES="$RES $p:rc=$rc"
    echo "CHECK $p rc=$rc $(echo "$out" | grep -E '^VIOLATION' | head -1)"
    echo "$out" | grep -vE "^\[C|^VIOLATION|^KNOWN" | head -2
  done
  git -C /repo checkout -- .
fi
python3 - "$NAME" "$FILTER" "$suite" "$with" "$without" "$RES" <<'PY'
import json,sys
id,flt,suite,w,wo,res=sys.argv[1:7]
meta={"property":id[:3],"demo_test_filter":flt,"confirmed":{"existing_suite_with_change":suite,"demo_with_change":w,"demo_without_change":wo},
      "checks_run_against_it":res.strip().split(),"what_it_needs":"see README.md (written by the sub-agent that produced the change)"}
json.dump(meta,open(f"/verif/seeded/{id}/meta.json","w"),indent=1)
PY
