#!/bin/bash
# Applies each mutant of /verif/mutants to /repo, runs the checks expected to catch it (quick tier),
# reverts. Usage: tools/selftest.sh [--suite] [name-filter]
#   --suite : also run the repository's own test suite on each mutant (slow)
cd "$(dirname "$0")/.."
SUITE=0; FILTER=""
for a in "$@"; do case "$a" in --suite) SUITE=1;; *) FILTER="$a";; esac; done
# USE_MUT=1: work on the scratch copy (/tmp/repo_mut2 worktree + /tmp/verif_mut2 rsync copy) instead of /repo
if [ -n "${USE_MUT:-}" ]; then
  export ST_REPO=/tmp/repo_mut2 ST_RUN=/tmp/verif_mut2
  [ -d $ST_REPO ] || git -C /repo worktree add --detach $ST_REPO HEAD >/dev/null 2>&1
  rsync -a --delete --exclude harness/target --exclude .git --exclude replays --exclude evidence --exclude harness/Cargo.toml ./ $ST_RUN/
  [ -f $ST_RUN/harness/Cargo.toml ] || sed "s#/repo/chitchat#$ST_REPO/chitchat#" harness/Cargo.toml > $ST_RUN/harness/Cargo.toml
else
  export ST_REPO=/repo ST_RUN=$PWD
fi
[ -z "$(git -C $ST_REPO status --porcelain)" ] || { echo "$ST_REPO is not clean"; exit 4; }
trap 'git -C $ST_REPO checkout -- . 2>/dev/null' EXIT
mkdir -p mutants/results
python3 - "$SUITE" "$FILTER" <<'PY'
import json, subprocess, sys, time, os
suite = sys.argv[1] == "1"; flt = sys.argv[2]
REPO = os.environ["ST_REPO"]; RUN = os.environ["ST_RUN"]
idx = json.load(open("mutants/index.json"))
rows = []
for m in idx:
    if flt and flt not in m["name"]: continue
    patch = f"mutants/{m['name']}.patch"
    r = subprocess.run(["git","-C",REPO,"apply",os.path.abspath(patch)],capture_output=True,text=True)
    if r.returncode != 0:
        rows.append((m["name"], "PATCH-FAILED", "", "")); print(m["name"], "patch failed", r.stderr[:200]); continue
    res = {}
    try:
        for p in m["expected"]:
            t=time.time()
            out = subprocess.run(["./check", p, "--tier", "quick"],capture_output=True,text=True,cwd=RUN)
            res[p] = (out.returncode, round(time.time()-t,1), [l for l in out.stdout.splitlines() if l.startswith("VIOLATION")][:1])
        st = ""
        if suite:
            env = dict(os.environ, RUSTUP_TOOLCHAIN="1.88.0")
            out = subprocess.run(f"cd {REPO} && " "cargo nextest run --workspace --no-fail-fast --tool-config-file pb:/w/lib/nextest.toml --profile pb --test-threads 8 --offline 2>&1 | grep -E 'Summary|FAIL ' | head -5", shell=True, capture_output=True, text=True, env=env)
            st = out.stdout.strip().replace("\n"," | ")
    finally:
        subprocess.run(["git","-C",REPO,"checkout","--","."])
    caught = [p for p,(rc,_,_) in res.items() if rc == 1]
    other = [f"{p}:rc={rc}" for p,(rc,_,_) in res.items() if rc not in (0,1)]
    verdict = "CAUGHT" if caught else "MISSED"
    print(f"{m['name']:40s} {verdict:7s} caught_by={caught} results={ {p:(rc,dt) for p,(rc,dt,_) in res.items()} } {' '.join(other)} {st}")
    rows.append({"mutant": m["name"], "expected": m["expected"], "verdict": verdict, "caught_by": caught, "results": {p:{"exit":rc,"secs":dt} for p,(rc,dt,_) in res.items()}, "repo_suite": st})
    json.dump(rows, open("mutants/results/selftest.json","w"), indent=1)
PY
