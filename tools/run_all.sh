#!/bin/bash
# Runs every check of MANIFEST.json at the given tier (default quick), validates the evidence files.
TIER="${1:-quick}"
cd "$(dirname "$0")/.."
./check build || exit 4
fail=0
for p in $(python3 -c "import json; print(' '.join(c['property_id'] for c in json.load(open('MANIFEST.json'))['checks']))"); do
  s=$(date +%s.%N)
  out=$(./check "$p" --tier "$TIER" 2>&1); rc=$?
  e=$(date +%s.%N)
  printf "%s rc=%d %.1fs %s\n" "$p" "$rc" "$(echo "$e - $s" | bc)" "$(echo "$out" | grep -E "^(VIOLATION|KNOWN-FINDING|MACHINERY)" | head -2 | cut -c1-110 | tr '\n' ' ')"
  [ $rc -ne 0 ] && fail=1
done
python3-vt - <<'PY'
import json, jsonschema, glob
schema = json.load(open('/root/.vp/EVIDENCE.schema.json'))
for f in sorted(glob.glob('evidence/C*.json')):
    try:
        jsonschema.validate(json.load(open(f)), schema)
    except Exception as ex:
        print("INVALID", f, str(ex)[:200])
print("evidence validated")
PY
exit $fail
