#!/bin/bash
# Runs, for every kept seeded change under /verif/seeded/, the check of its own property (quick tier)
# with the change applied, and writes seeded/RESULTS.md.
#   default     : against /repo itself (must be clean; each patch is applied and reverted)
#   USE_MUT=1   : against the scratch copy /tmp/repo_mut + /tmp/verif_mut (a git worktree of /repo and
#                 an rsync copy of /verif), so that /repo stays untouched while something else uses it
cd "$(dirname "$0")/.."
VERIF=$PWD
if [ -n "${USE_MUT:-}" ]; then
  REPO=/tmp/repo_mut; RUN=/tmp/verif_mut
  rsync -a --delete --exclude harness/target --exclude .git --exclude replays --exclude evidence --exclude harness/Cargo.toml $VERIF/ $RUN/
else
  REPO=/repo; RUN=$VERIF
fi
[ -z "$(git -C $REPO status --porcelain)" ] || { echo "$REPO is not clean"; exit 4; }
trap 'git -C $REPO checkout -- . 2>/dev/null' EXIT
out=$VERIF/seeded/RESULTS.md
echo "| seeded change | property | own check (quick) | first violation line |" > $out
echo "|---|---|---|---|" >> $out
for d in $VERIF/seeded/C*/; do
  name=$(basename $d); prop=${name:0:3}
  case "$name" in *rejected*) echo "| $name | $prop | (rejected, not a kept change) | |" >> $out; continue;; esac
  git -C $REPO apply "$d/patch.diff" || { echo "| $name | $prop | PATCH FAILED | |" >> $out; continue; }
  o=$(cd $RUN && ./check $prop --tier quick 2>&1); rc=$?
  git -C $REPO checkout -- .
  line=$(echo "$o" | grep -vE "^\[C|^VIOLATION|^KNOWN|^MACHINERY|^$|panicked at" | head -1 | cut -c1-160 | tr '|' '/')
  v="MISSED (exit $rc)"; [ $rc -eq 1 ] && v="caught (exit 1)"
  echo "| $name | $prop | $v | $line |" >> $out
  echo "$name $v"
done
