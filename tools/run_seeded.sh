#!/bin/bash
# Runs, for every kept seeded change under /verif/seeded/, the check of its own property (quick tier)
# against /repo with the change applied, and writes seeded/RESULTS.md. /repo must be clean.
cd "$(dirname "$0")/.."
[ -z "$(git -C /repo status --porcelain)" ] || { echo "/repo is not clean"; exit 4; }
trap 'git -C /repo checkout -- . 2>/dev/null' EXIT
out=seeded/RESULTS.md
echo "| seeded change | property | own check (quick) | first violation line |" > $out
echo "|---|---|---|---|" >> $out
for d in seeded/C*/; do
  name=$(basename $d); prop=${name:0:3}
  git -C /repo apply "$PWD/$d/patch.diff" || { echo "| $name | $prop | PATCH FAILED | |" >> $out; continue; }
  o=$(./check $prop --tier quick 2>&1); rc=$?
  git -C /repo checkout -- .
  line=$(echo "$o" | grep -vE "^\[C|^VIOLATION|^KNOWN|^MACHINERY" | head -1 | cut -c1-160 | tr '|' '/')
  v="MISSED (exit $rc)"; [ $rc -eq 1 ] && v="caught (exit 1)"
  echo "| $name | $prop | $v | $line |" >> $out
  echo "$name $v"
done
