#!/bin/bash
# Runs every thorough check sequentially; prints one summary line per property.
cd "$(dirname "$0")/.."
./check build || exit 4
for p in ${@:-C06 C07 C08 C14 C15 C16 C17 C18 C19 C09 C10 C11 C12 C13 C20 C03 C05 C04 C02 C01}; do
  s=$(date +%s)
  out=$(./check "$p" --tier thorough 2>&1); rc=$?
  e=$(date +%s)
  echo "=== $p rc=$rc $((e-s))s"
  echo "$out" | grep -E "^\[C|^VIOLATION|^KNOWN|^MACHINERY" | cut -c1-260
  echo "$out" | grep -vE "^\[C|^VIOLATION|^KNOWN|^MACHINERY" | head -5 | cut -c1-300
  cp evidence/$p.json evidence-thorough-$p.json 2>/dev/null
done
