#!/bin/bash
# tools/mut_check.sh <patch file> <Cxx> [Cyy ...]
# Runs checks against a scratch copy (/tmp/repo_mut$MUT + /tmp/verif_mut$MUT: a git worktree of /repo and
# an rsync copy of /verif) with the patch applied, so that /repo itself stays untouched (needed while
# a long run is using /repo). MUT=<suffix> selects another scratch pair (created on first use).
P="$1"; shift
R=/tmp/repo_mut${MUT:-}; V=/tmp/verif_mut${MUT:-}
[ -d $R ] || git -C /repo worktree add --detach $R HEAD >/dev/null 2>&1
rsync -a --delete --exclude harness/target --exclude .git --exclude replays --exclude evidence --exclude harness/Cargo.toml /verif/ $V/
[ -f $V/harness/Cargo.toml ] || sed "s#/repo/chitchat#$R/chitchat#" /verif/harness/Cargo.toml > $V/harness/Cargo.toml
cd $R && git checkout -q -- . && git apply "$P" || { echo "patch failed"; exit 4; }
cd $V
for p in "$@"; do
  out=$(./check $p --tier quick 2>&1); rc=$?
  echo "CHECK $p rc=$rc"
  echo "$out" | grep -vE "^\[C|^VIOLATION|^KNOWN|^$|panicked at" | head -2 | cut -c1-300
done
cd $R && git checkout -q -- .
