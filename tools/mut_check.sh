#!/bin/bash
# tools/mut_check.sh <patch file> <Cxx> [Cyy ...]
# Runs checks against a scratch copy (/tmp/repo_mut + /tmp/verif_mut) with the patch applied, so that
# /repo itself stays untouched (needed while a long run is using /repo).
P="$1"; shift
rsync -a --delete --exclude harness/target --exclude .git --exclude replays --exclude evidence --exclude harness/Cargo.toml /verif/ /tmp/verif_mut/
cd /tmp/repo_mut && git checkout -q -- . && git apply "$P" || { echo "patch failed"; exit 4; }
cd /tmp/verif_mut
for p in "$@"; do
  out=$(./check $p --tier quick 2>&1); rc=$?
  echo "CHECK $p rc=$rc"
  echo "$out" | grep -vE "^\[C|^VIOLATION|^KNOWN" | head -2 | cut -c1-300
done
cd /tmp/repo_mut && git checkout -q -- .
