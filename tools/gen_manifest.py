#!/usr/bin/env python3
"""Regenerates /verif/MANIFEST.json from the table below (kept in sync with DESIGN.md section 4)."""
import json, os, subprocess
HERE = os.path.dirname(os.path.dirname(os.path.abspath(__file__)))
props = [json.loads(l)["id"] for l in open(os.path.join(HERE, "properties.jsonl"))]

ENGINES = {
    "cluster": ("harness/src/engines/cluster.rs (+ src/world.rs)", ["C01","C02","C03","C04","C05","C20"], "explicit-state BFS over histories of actions on 2-4 real Chitchat nodes (message and handshake granularity), dedup on canonical state, scripted equal-staleness choices, handshake closure for convergence"),
    "pair": ("harness/src/engines/pair.rs", ["C14","C04","C20","C07"], "exhaustive cross product sender copy x receiver copy x truncation point, copies installed through the wire on real nodes, compared with a reference admission table"),
    "kv": ("harness/src/engines/kv.rs", ["C06","C04"], "bounded-exhaustive operation sequences + BFS with dedup on the real NodeState against a reference versioned map"),
    "wire": ("harness/src/engines/wire.rs (+ src/codec.rs)", ["C08"], "bounded grammar enumeration of messages, independent codec vs real codec in both directions"),
    "mtu": ("harness/src/engines/mtu.rs", ["C07"], "boundary-directed exhaustive sweeps of reply sizes (own-digest size, block boundaries, every budget) with content check"),
    "hostile": ("harness/src/engines/hostile.rs", ["C09"], "exhaustive op sequences in arbitrary order + exhaustive single-byte / truncation / length-field mutations of a corpus, delivered to real nodes in 6 base states"),
    "fd": ("harness/src/engines/fd.rs", ["C10","C11"], "exhaustive heartbeat/clock/evaluation event sequences + unrolled periodic schedules over a configuration grid on a real observer node"),
    "membership": ("harness/src/engines/membership.rs", ["C12","C13","C01"], "exhaustive action sequences after a deterministic warm-up on three real nodes with the failure detector in the loop, several non-initial roots"),
    "listeners": ("harness/src/engines/listeners.rs", ["C15"], "exhaustive strings over a 4-symbol alphabet x prefix sets x life cycles x write kinds"),
    "select": ("harness/src/engines/select.rs", ["C17"], "exhaustive role multisets x lazily enumerated generator scripts through the real selection function"),
    "isolation": ("harness/src/engines/isolation.rs", ["C16"], "explicit-state BFS (cluster explorer) over two clusters with different ids"),
    "catchup": ("harness/src/engines/catchup.rs", ["C18"], "exhaustive (existing copy x supplied state x position) calls of the public catch-up entry point"),
    "server": ("harness/src/engines/server.rs", ["C19"], "exhaustive fault/event scripts against the real gossip loop over a scripted transport on a paused runtime"),
}

def C(engine, design, technique, text, note):
    return dict(engine=engine, design=design, technique=technique, text=text, note=note)

TRUST = "Trusted: the harness (independent codec, reference models, oracles), the paused tokio clock, zstd, and the add-only `verif` facade (wrappers without logic). Bounds are stated in the evidence file; nothing outside them is claimed."
CHECKS = {
 "C01": C("cluster+membership", "DESIGN.md 3.1, 3.5, 4 (C01)", "explicit-state BFS on real nodes + exhaustive handshake-closure graph (progress on every edge, convergence at every terminal, acyclicity, longest path)",
   "From every distinct node-state configuration reached by the bounded exploration (message and handshake granularity, small and 40 KB values), the complete graph of loss-free handshake sequences is explored to fixpoint on the real code: every edge must advance a lagging copy, every terminal configuration must be converged, the graph must be acyclic; plus the dead-member case with the failure detector in the loop.", TRUST),
 "C02": C("cluster", "DESIGN.md 3.1, 4 (C02), 5 (KF-1)", "explicit-state BFS over action histories on real nodes, invariant against an owner ledger on every transition",
   "Every transition of the bounded exploration is checked against a ledger of the owner's writes (copy exact up to its frontier). Known finding KF-1 is attributed by cause signature; any other violation is reported.", TRUST),
 "C03": C("cluster", "DESIGN.md 3.1, 4 (C03)", "explicit-state BFS over action histories on real nodes, ledger membership of every held entry on every transition",
   "Every entry of every copy after every explored transition must be a ledger write of that owner with that exact version, value and status; no copy's max version or heartbeat exceeds the owner's.", TRUST),
 "C04": C("cluster+pair+kv", "DESIGN.md 3.1-3.3, 4 (C04)", "explicit-state BFS on real nodes + exhaustive (copy, delta) cross product + exhaustive local operation sequences",
   "Frontier and per-key version monotonicity and absence of panics on every explored transition, on every (receiver copy, honest-shaped delta) pair of the small scope, and version allocation on every local operation sequence; the catch-up entry point (every existing copy x supplied state, followed by key-GC passes timed between out-of-order tombstone expiries) with the frontier / per-key version / no-abort oracle.", TRUST),
 "C05": C("cluster", "DESIGN.md 3.1, 4 (C05)", "explicit-state BFS over action histories on real nodes, own-namespace snapshot before/after every processed message",
   "For every processed message in the exploration the receiver's own copy is unchanged (heartbeat + 1), writes change only the writer's own copy, and no copy is ahead of its owner.", TRUST),
 "C06": C("kv", "DESIGN.md 3.3, 4 (C06)", "bounded-exhaustive enumeration of operation sequences on the real NodeState + explicit-state BFS (depth 40) against a reference model",
   "Every operation sequence up to the length bound (no deduplication) and every abstract state reachable within 40 operations is executed on the real NodeState; after each, all public reads are compared with a reference versioned map; covers the GC boundary before / exactly at / after a grace period that is not a whole number of seconds.",
   TRUST + " The reference mirrors two quirks the statement does not rule out (delete on a tombstone takes a fresh version; delete_after_ttl on a tombstone re-exposes the key with an empty value)."),
 "C07": C("mtu+pair", "DESIGN.md 3.4, 4 (C07), 5 (F-5)", "boundary-directed exhaustive sweeps on the real reply path (own-digest size x value length, block boundaries + bisection window, every budget 100..2200 x every equal-staleness order)",
   "Every reply in the sweeps is measured against 65,507 bytes and its delta compared entry by entry with the sender's state; the sweeps put the stream at every offset around block and budget boundaries.", TRUST),
 "C08": C("wire", "DESIGN.md 3.4, 4 (C08), Appendix A", "bounded grammar enumeration; independent codec vs real codec in both directions",
   "Every message of the bounded grammar is encoded by an independent implementation of the documented layout under five block layouts and read by the real decoder (message view must equal the AST, all bytes consumed); real emissions over all length classes, bulk states (streams of hundreds of blocks, ~10 MB before compression) and members sharing an address are read by the independent decoder; announced lengths equal bytes written.", TRUST),
 "C09": C("hostile", "DESIGN.md 3.7, 4 (C09), 5 (F-3)", "exhaustive op sequences in arbitrary order and exhaustive byte-level mutations delivered to real nodes",
   "All op sequences up to the length bound over a hostile alphabet (any order, extreme values, spoofed ids), all ordered pairs of short datagrams, and every truncation / single-byte replacement / block-length perturbation of a corpus are decoded and processed by real nodes in six base states; no panic, invariants intact. An explicit-state BFS over sequences of hostile datagrams and liveness evaluations (deduplicated on the observable node state) runs to a fixpoint or depth 20; the real UdpSocket::recv is driven with every short sequence of garbage / valid datagrams over loopback.", TRUST + " The closure's state key cannot see the failure detector's windows and timers: merging on it can lose coverage, never raise an alarm. Loopback timeouts are inconclusive, never violations."),
 "C10": C("fd", "DESIGN.md 3.6, 4 (C10)", "exhaustive event sequences (heartbeats, clock advances, evaluations) + unrolled periodic schedules on a real observer over a configuration grid",
   "At every evaluation of every enumerated history the member must be dead once the last strictly higher heartbeat is older than phi x max(max_interval, initial_interval), and never live with fewer than two observations; long periodic histories exercise window wrap and the incremental sum.", TRUST),
 "C11": C("fd", "DESIGN.md 3.6, 4 (C11)", "exhaustive event sequences with a differential oracle (history with vs without stale heartbeats) + steady-arrival schedules",
   "Every enumerated history containing equal/lower heartbeats is re-run without them and must yield identical verdicts; liveness never precedes two strictly increasing values; steady arrivals within [a,b] with the threshold at b/min(a,initial) are never flagged, also for a member returning after a silence or in the second half of a finite dead-node grace period; histories with deltas that reset the observer's copy are enumerated with the non-differential oracles.", TRUST),
 "C12": C("membership", "DESIGN.md 3.5, 4 (C12)", "exhaustive action sequences on three real nodes after a deterministic warm-up, from seven roots (crash, partition, quarantined, removed, removed while the peer stays live, partition+removed, a member removed twice)",
   "Live/dead disjointness, classification after every evaluation, exclusion from digests and deltas after grace/2, removal at grace, and the re-creation guard are checked on every step of every sequence; plus a walk of 500 members through the removed-member memory.", TRUST),
 "C13": C("membership", "DESIGN.md 3.5, 4 (C13)", "exhaustive action sequences on three real nodes, watch-channel value compared with the evaluated membership after every evaluation, with and without the extra predicate",
   "After every evaluation in every sequence the channel value must list exactly the live members satisfying the predicate with their current max versions, and a publication must have happened whenever the live set or a live member's version changed; also when no receiver is held between evaluations and the value is read on demand.", TRUST + " TTL-driven predicate flips without a version change (observation O-2) are outside the quantifier's step relation and are not raised."),
 "C14": C("pair", "DESIGN.md 3.2, 4 (C14), Appendix B", "exhaustive cross product sender copy x receiver copy x truncation point on real nodes against a reference admission table",
   "For every pair of copies in the small scope the real sender's delta (from the receiver's real digest, under every truncating budget) is compared op by op with the admission table and delivered to the real receiver, whose resulting copy is compared with the table; resets exactly when both frontiers lie below the sender's watermark. A second sweep puts two members in the same delta (companion in 6 situations, both id orders, every equal-staleness order) and checks each member against the table plus strict progress.", TRUST),
 "C15": C("listeners", "DESIGN.md 3.7, 4 (C15), 5 (F-2)", "exhaustive enumeration of keys / prefix sets over an alphabet with multi-byte characters x life cycles x write kinds on a real node",
   "For all strings up to length 3 over {a, b, é, 😀}: every prefix set of size <= 2 x key, every prefix x key x life cycle x write kind (local and replicated), and every 8-subset of near-miss prefixes; the multiset of callbacks must equal the reference; write kinds include deltas that reset the copy; a handle dropped by a second real thread while a notification is in progress must be unsubscribed afterwards.", TRUST + " The two-thread part runs one fixed interleaving per case (drop begins inside the notification window), synchronised by channels."),
 "C16": C("isolation", "DESIGN.md 3.7, 4 (C16)", "explicit-state BFS over two clusters of real nodes with different ids, message granularity with duplication",
   "In every explored state no node knows a member of the other cluster; every foreign SYN is answered by exactly BadCluster and leaves the receiver bit-identical (heartbeat + 1); BadCluster replies change nothing; every prefix of a foreign SYN's bytes (cluster ids in every relation, incl. prefix-of-each-other) is undecodable or rejected without effect.", TRUST + " SYN-ACK/ACK carry no cluster id (observation O-3); one address serving both clusters over time is outside the quantifier."),
 "C17": C("select", "DESIGN.md 3.7, 4 (C17)", "exhaustive role multisets of up to 6 addresses x lazily enumerated generator scripts through the real selection function",
   "Every configuration of the subset structure and every script of extreme/mid generator outputs for the draws actually consumed; bounds, pools, forced-seed and forced-dead clauses, no panic. On the real server loop: every script up to the length bound must contact the seed in every round, and for every small membership (ready / not-ready / dead peers, seed placement, with and without a liveness predicate) the SYN destinations of a round must split into <= 3 pool peers + <= 1 dead + <= 1 seed.", TRUST + " The address picked from a HashSet depends on iteration order; the oracle is a membership/cardinality predicate invariant under that order."),
 "C18": C("catchup", "DESIGN.md 3.7, 4 (C18), 5 (F-4)", "exhaustive (existing copy x supplied state x position relative to a real handshake) calls of the public entry point on a real node",
   "Every call of the scope must not panic, must not lower the frontier, must leave the copy unchanged or replace its key set (newer shared keys win), must not re-create a garbage collected member nor make a member live. Sequences of calls, clock advances, evaluations and heartbeats are compared with a call-free twin run: without a heartbeat event the member is live with the calls only if it is live without them.", TRUST),
 "C19": C("server", "DESIGN.md 3.8, 4 (C19)", "exhaustive event/fault scripts against the real gossip loop over a scripted transport on a paused current-thread runtime, closing probes after every script",
   "Every script up to the length bound over send ok/error/blocked, valid and foreign messages, fatal receive error, gossip interval, user lock, user command, shutdown and an injected panic; after each script the loop must be alive and responsive, or its termination reported; locks always granted; shutdown always completes. Also: every short byte string through the decoder the real socket runs inside the server task; the real UdpSocket over loopback for send-fault and garbage/valid receive sequences; fairness of the loop when the socket is ready 20,000 times in a row (shutdown, a due round and a user command must be served early).", TRUST + " At most one select! branch is made ready at a time (the loop re-creates all futures each iteration and they are cancel-safe); the real UDP transport is not part of the deciding step."),
 "C20": C("cluster+pair", "DESIGN.md 3.1, 3.2, 4 (C20)", "explicit-state BFS on real nodes with a counting callback + exhaustive (copy, delta) pairs + multi-member messages",
   "For every processed SYN-ACK/ACK in the exploration, in the pair sweeps and in the multi-member family the catch-up callback count must be 1 iff some copy's watermark rose, else 0 (member deltas of 7 kinds incl. header-only resets and deltas about unknown members).", TRUST),
}

def hooks_commits():
    try:
        out = subprocess.check_output(["git", "-C", "/repo", "log", "--format=%h %s"], text=True)
        return [l.split()[0] for l in out.splitlines() if l.split(" ", 1)[1].startswith("verif hooks")]
    except Exception:
        return []

checks = []
for pid in props:
    if pid not in CHECKS:
        continue
    c = CHECKS[pid]
    checks.append({
        "property_id": pid,
        "quick_cmd": f"./check {pid} --tier quick",
        "thorough_cmd": f"./check {pid} --tier thorough",
        "evidence_file": f"/verif/evidence/{pid}.json",
        "replay_cmd_template": "./check replay {path}",
        "engine": c["engine"],
        "level_claimed": {"category": "model_checking", "text": c["text"], "design_ref": c["design"]},
        "level_note": c["note"],
        "technique": c["technique"],
    })
manifest = {
    "version": 1,
    "setup_cmd": "./check build",
    "hooks": {
        "guard": "cargo feature `verif` of crate chitchat (chitchat/Cargo.toml [features] verif = [])",
        "enable": "the harness crate depends on chitchat = { path = \"/repo/chitchat\", features = [\"verif\"] }; every ./check invocation rebuilds it from /repo's working tree",
        "baseline_off_cmd": "cd /repo && RUSTUP_TOOLCHAIN=1.88.0 cargo nextest run --workspace --no-fail-fast --tool-config-file pb:/w/lib/nextest.toml --profile pb --test-threads 8 --offline || (cd /repo && RUSTUP_TOOLCHAIN=1.88.0 cargo test --workspace --no-fail-fast --offline)",
        "source_commits": hooks_commits(),
        "add_only": True,
    },
    "engines": [{"name": n, "path": p, "serves_properties": s, "kind_free_text": k} for n, (p, s, k) in ENGINES.items()],
    "checks": checks,
    "notes": "Model checking on the real code: every check enumerates a bounded space of histories / inputs exhaustively and executes each one on real chitchat objects (no separate model). See DESIGN.md.",
    "not_applicable": [{"property_id": p, "reason": "check not built yet (build in progress, DESIGN.md section 7)"} for p in props if p not in CHECKS],
}
json.dump(manifest, open(os.path.join(HERE, "MANIFEST.json"), "w"), indent=1)
print("checks:", [c["property_id"] for c in checks])
