#!/usr/bin/env python3
"""Regenerates /verif/MANIFEST.json from the table below (kept in sync with DESIGN.md section 4)."""
import json, os, subprocess
HERE = os.path.dirname(os.path.dirname(os.path.abspath(__file__)))
props = [json.loads(l)["id"] for l in open(os.path.join(HERE, "properties.jsonl"))]

ENGINES = {
    "kv": ("harness/src/engines/kv.rs", ["C06", "C04"], "bounded-exhaustive operation sequences + BFS with dedup on the real NodeState against a reference versioned map"),
}

CHECKS = {
    "C06": dict(engine="kv", design="DESIGN.md 3.3, 4 (C06)",
        technique="bounded-exhaustive enumeration of operation sequences on the real NodeState + explicit-state BFS (depth 40) against a reference model",
        text="Every operation sequence up to the length bound (no deduplication) and every abstract state reachable within 40 operations is executed on the real NodeState; after each, all public reads are compared with a 40-line reference versioned map. Covers the GC boundary before / exactly at / after the grace period.",
        note="Trusted: the reference model in harness/src/engines/kv.rs (mirrors two documented quirks: delete on a tombstone takes a fresh version; delete_after_ttl on a tombstone re-exposes the key with an empty value); the paused tokio clock; the abstraction used for deduplication in the BFS part (stated in the evidence)."),
}

def hooks_commits():
    try:
        out = subprocess.check_output(["git", "-C", "/repo", "log", "--format=%h %s"], text=True)
        return [l.split()[0] for l in out.splitlines() if l.split(" ", 1)[1].startswith("verif hooks")]
    except Exception:
        return []

checks = []
for pid in props:
    if pid not in CHECKS:
        continue
    c = CHECKS[pid]
    checks.append({
        "property_id": pid,
        "quick_cmd": f"./check {pid} --tier quick",
        "thorough_cmd": f"./check {pid} --tier thorough",
        "evidence_file": f"/verif/evidence/{pid}.json",
        "replay_cmd_template": "./check replay {path}",
        "engine": c["engine"],
        "level_claimed": {"category": "model_checking", "text": c["text"], "design_ref": c["design"]},
        "level_note": c["note"],
        "technique": c["technique"],
    })
manifest = {
    "version": 1,
    "setup_cmd": "./check build",
    "hooks": {
        "guard": "cargo feature `verif` of crate chitchat (chitchat/Cargo.toml [features] verif = [])",
        "enable": "the harness crate depends on chitchat = { path = \"/repo/chitchat\", features = [\"verif\"] }; every ./check invocation rebuilds it from /repo's working tree",
        "baseline_off_cmd": "cd /repo && RUSTUP_TOOLCHAIN=1.88.0 cargo nextest run --workspace --no-fail-fast --tool-config-file pb:/w/lib/nextest.toml --profile pb --test-threads 8 --offline || (cd /repo && RUSTUP_TOOLCHAIN=1.88.0 cargo test --workspace --no-fail-fast --offline)",
        "source_commits": hooks_commits(),
        "add_only": True,
    },
    "engines": [{"name": n, "path": p, "serves_properties": s, "kind_free_text": k} for n, (p, s, k) in ENGINES.items()],
    "checks": checks,
    "notes": "Model checking on the real code: every check enumerates a bounded space of histories / inputs exhaustively and executes each one on real chitchat objects (no separate model). See DESIGN.md.",
    "not_applicable": [{"property_id": p, "reason": "check not built yet (build in progress, DESIGN.md section 7)"} for p in props if p not in CHECKS],
}
json.dump(manifest, open(os.path.join(HERE, "MANIFEST.json"), "w"), indent=1)
print("checks:", [c["property_id"] for c in checks])
