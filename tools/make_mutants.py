#!/usr/bin/env python3
"""Generates /verif/mutants/*.patch: small property-breaking changes to /repo used to demonstrate
that the checks detect what they claim (tools/selftest.sh applies them one by one and reverts)."""
import subprocess, os, sys, json
REPO = "/repo"
OUT = "/verif/mutants"
M = [
 # (name, expected properties, file, old, new)
 ("M01-receiver-watermark-lt", ["C14","C01"], "chitchat/src/state.rs",
  "            node_delta.last_gc_version <= self.last_gc_version ||", "            node_delta.last_gc_version < self.last_gc_version ||"),
 ("M02-sender-reset-lte", ["C14"], "chitchat/src/state.rs",
  "                && digest_max_version < node_state.last_gc_version;", "                && digest_max_version <= node_state.last_gc_version;"),
 ("M03-drop-empty-tail-setmax", ["C14","C01"], "chitchat/src/state.rs",
  "                let _ = delta_serializer.try_set_max_version(stale_node.node_state.max_version);", "                let _ = stale_node.node_state.max_version;"),
 ("M04-gc-ignores-ttl-watermark", ["C02","C06"], "chitchat/src/state.rs",
  "                max_deleted_version = versioned_value.version.max(max_deleted_version);",
  "                if versioned_value.is_deleted() {\n                    max_deleted_version = versioned_value.version.max(max_deleted_version);\n                }"),
 ("M05-ttl-sent-as-set", ["C02","C03"], "chitchat/src/types.rs",
  "            DeletionStatus::DeleteAfterTtl(_) => DeletionStatusMutation::DeleteAfterTtl,", "            DeletionStatus::DeleteAfterTtl(_) => DeletionStatusMutation::Set,"),
 ("M07-header-budget-1", ["C07"], "chitchat/src/lib.rs",
  "pub(crate) const MESSAGE_HEADER_LEN: usize = 4;", "pub(crate) const MESSAGE_HEADER_LEN: usize = 1;"),
 ("M08-digest-keeps-scheduled", ["C12"], "chitchat/src/state.rs",
  "                .filter(|(chitchat_id, _)| !scheduled_for_deletion.contains(chitchat_id))\n                .map(|(chitchat_id, node_state)| (chitchat_id.clone(), node_state.digest()))",
  "                .filter(|(chitchat_id, _)| scheduled_for_deletion.len() > 1 || !scheduled_for_deletion.contains(chitchat_id))\n                .map(|(chitchat_id, node_state)| (chitchat_id.clone(), node_state.digest()))"),
 ("M09-decoder-swaps-gc-from", ["C08","C14"], "chitchat/src/delta.rs",
  "                let last_gc_version = Version::deserialize(buf)?;\n                let from_version_excluded = u64::deserialize(buf)?;",
  "                let from_version_excluded = u64::deserialize(buf)?;\n                let last_gc_version = Version::deserialize(buf)?;"),
 ("M10-fd-keeps-long-intervals", ["C10"], "chitchat/src/failure_detector.rs",
  "            if interval <= self.max_interval {", "            if interval <= self.max_interval * 64 {"),
 ("M11-fd-sum-not-subtracted", ["C10"], "chitchat/src/failure_detector.rs",
  "        if self.is_filled {\n            self.sum -= self.values[self.index];\n        }", "        if self.is_filled && self.values.len() > 3 {\n            self.sum -= self.values[self.index];\n        }"),
 ("M12-equal-heartbeat-counts", ["C11"], "chitchat/src/state.rs",
  "        if heartbeat_new_value > self.heartbeat {", "        if heartbeat_new_value >= self.heartbeat {"),
 ("M13-quarantine-after-full-grace", ["C12"], "chitchat/src/failure_detector.rs",
  "self.config.dead_node_grace_period.div_f32(2.0f32);", "self.config.dead_node_grace_period.div_f32(1.0f32);"),
 ("M14-removed-member-not-remembered", ["C12"], "chitchat/src/state.rs",
  "        if let Some(node_state) = node_state {\n            self.garbage_collected_nodes\n                .push(chitchat_id.clone(), node_state.heartbeat);\n        }",
  "        if let Some(node_state) = node_state {\n            if node_state.max_version() > 0 {\n                self.garbage_collected_nodes\n                    .push(chitchat_id.clone(), node_state.heartbeat);\n            }\n        }"),
 ("M15-recreate-on-equal-heartbeat", ["C12"], "chitchat/src/lib.rs",
  "            .map(|last_heartbeat| last_heartbeat < heartbeat)", "            .map(|last_heartbeat| last_heartbeat <= heartbeat)"),
 ("M16-watch-ignores-versions", ["C13"], "chitchat/src/lib.rs",
  "        if self.previous_live_nodes != current_live_nodes {", "        if self.previous_live_nodes.len() != current_live_nodes.len()\n            || self.previous_live_nodes.keys().any(|id| !current_live_nodes.contains_key(id))\n        {"),
 ("M17-cluster-check-after-digest", ["C16"], "chitchat/src/lib.rs",
  "                if cluster_id != self.cluster_id() {", "                self.report_heartbeats_in_digest(&digest);\n                if cluster_id != self.cluster_id() {"),
 ("M18-seed-not-forced", ["C17"], "chitchat/src/server.rs",
  "    if live_nodes_count == 0 || rng.random::<f64>() <= selection_probability {", "    if rng.random::<f64>() <= selection_probability {"),
 ("M19-handler-error-kills-loop", ["C19"], "chitchat/src/server.rs",
  "                        let _ = self.handle_message(from_addr, message).await;", "                        self.handle_message(from_addr, message).await?;"),
 ("M20-lock-held-across-send", ["C19"], "chitchat/src/server.rs",
  "        let response = self.chitchat.lock().await.process_message(message);\n        // Send reply if necessary.\n        if let Some(message) = response {\n            self.transport.send(from_addr, message).await?;\n        }",
  "        let mut guard = self.chitchat.lock().await;\n        let response = guard.process_message(message);\n        // Send reply if necessary.\n        if let Some(message) = response {\n            self.transport.send(from_addr, message).await?;\n        }\n        drop(guard);"),
 ("M21-reset-flag-overwritten", ["C20"], "chitchat/src/state.rs",
  "                contains_reset |= delta_status == DeltaStatus::ApplyAfterReset;", "                contains_reset = delta_status == DeltaStatus::ApplyAfterReset;"),
 ("M22-listener-range-excludes-key", ["C15"], "chitchat/src/listener.rs",
  "            Bound::Included(key_change_event.key),\n        );", "            Bound::Excluded(key_change_event.key),\n        );"),
 ("M23-gc-boundary-inclusive", ["C06"], "chitchat/src/state.rs",
  "                if now < deleted_start_instant + grace_period {", "                if now <= deleted_start_instant + grace_period {"),
 ("M24-syn-len-omits-cluster-id", ["C08"], "chitchat/src/message.rs",
  "                    1 + cluster_id.serialized_len() + digest.serialized_len()", "                    1 + 2 + cluster_id.chars().count() + digest.serialized_len()"),
 ("M25-ttl-applied-as-set", ["C03","C02"], "chitchat/src/state.rs",
  "                status: key_value_mutation.status.into_status(now),", "                status: if key_value_mutation.status == DeletionStatusMutation::DeleteAfterTtl { DeletionStatus::Set } else { key_value_mutation.status.into_status(now) },"),
 ("M26-catchup-keeps-stale-keys", ["C18"], "chitchat/src/lib.rs",
  "        for key in previous_keys {\n            node_state.remove_key_value_internal(&key);\n        }", "        for key in previous_keys.into_iter().skip(1) {\n            node_state.remove_key_value_internal(&key);\n        }"),
 ("M27-setmax-may-lower", ["C09"], "chitchat/src/delta.rs",
  "                    current_node_delta.max_version <= max_version,", "                    current_node_delta.max_version <= max_version || max_version == 0,"),
 ("M28-stale-entry-overwrites-newer", ["C04","C03"], "chitchat/src/state.rs",
  "            if key_value_mutation.version <= current_max_version {\n                // We already know about this KV.\n                continue;\n            }", "            if key_value_mutation.version < current_max_version {\n                // We already know about this KV.\n                continue;\n            }"),
 ("M29-version-skips-on-delete", ["C04","C06"], "chitchat/src/state.rs",
  "        self.max_version += 1;\n        versioned_value.version = self.max_version;\n        versioned_value.value = \"\".to_string();", "        self.max_version += 2;\n        versioned_value.version = self.max_version;\n        versioned_value.value = \"\".to_string();"),
 ("M30-dead-pick-not-forced", ["C17"], "chitchat/src/server.rs",
  "    let selection_probability = dead_nodes_count as f64 / (live_nodes_count + 1) as f64;", "    let selection_probability = dead_nodes_count as f64 / (live_nodes_count + 2) as f64;"),
 ("M31-udp-garbage-is-fatal", ["C19","C09"], "chitchat/src/transport/udp.rs",
  "                warn!(payload_len=len, from=%from_addr, err=%err, \"invalid-chitchat-payload\");\n                Ok(None)", "                warn!(payload_len=len, from=%from_addr, err=%err, \"invalid-chitchat-payload\");\n                Err(err)"),
 ("M32-live-pool-from-dead-set", ["C17"], "chitchat/src/server.rs",
  "        let live_nodes = chitchat_guard\n            .live_nodes()\n            .filter(|chitchat_id| *chitchat_id != chitchat_guard.self_chitchat_id())", "        let live_nodes = chitchat_guard\n            .dead_nodes()\n            .filter(|chitchat_id| *chitchat_id != chitchat_guard.self_chitchat_id())"),
 ("M33-catchup-reports-heartbeat", ["C18"], "chitchat/src/lib.rs",
  "        self.failure_detector\n            .get_or_create_sampling_window(chitchat_id);", "        self.failure_detector.report_heartbeat(chitchat_id);"),
]
os.makedirs(OUT, exist_ok=True)
assert subprocess.run(["git","-C",REPO,"status","--porcelain"],capture_output=True,text=True).stdout.strip()=="", "repo not clean"
index=[]
for name, props, f, old, new in M:
    p=os.path.join(REPO,f); s=open(p).read()
    if s.count(old)!=1:
        print("SKIP (anchor not unique/found):", name, s.count(old)); continue
    open(p,"w").write(s.replace(old,new))
    d=subprocess.run(["git","-C",REPO,"diff"],capture_output=True,text=True).stdout
    open(os.path.join(OUT,name+".patch"),"w").write(d)
    subprocess.run(["git","-C",REPO,"checkout","--","."],check=True)
    index.append({"name":name,"expected":props,"file":f})
json.dump(index,open(os.path.join(OUT,"index.json"),"w"),indent=1)
print(len(index),"mutants written")
